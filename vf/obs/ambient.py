"""Ambient interpreter state that a library call may read but must hand back as it found it, also while one of its
generators is suspended: the thread's decimal context, the recursion limit, the working directory, the default socket
timeout, the locale, the identity of sys.stdout / sys.stderr, the warnings filter list."""
import decimal
import locale
import os
import socket
import sys
import warnings


def snapshot():
    c = decimal.getcontext()
    return {
        "decimal.prec": c.prec, "decimal.rounding": c.rounding, "decimal.Emin": c.Emin, "decimal.Emax": c.Emax,
        "decimal.capitals": c.capitals, "decimal.clamp": c.clamp,
        "decimal.traps": tuple(sorted(k.__name__ for k, v in c.traps.items() if v)),
        "recursionlimit": sys.getrecursionlimit(), "cwd": os.getcwd(), "socket.defaulttimeout": socket.getdefaulttimeout(),
        "locale": locale.setlocale(locale.LC_ALL), "stdout": id(sys.stdout), "stderr": id(sys.stderr),
        "warnings.filters": len(warnings.filters), "switchinterval": sys.getswitchinterval(),
    }


def diff(a, b):
    return {k: (a[k], b[k]) for k in a if a[k] != b[k]}
