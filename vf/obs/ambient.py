"""Ambient interpreter state that a library call may read but must hand back as it found it, also while one of its
generators is suspended: the thread's decimal context, the recursion limit, the working directory, the default socket
timeout, the locale, the identity of sys.stdout / sys.stderr, the warnings filter list, urllib.parse's scheme tables,
sys.path, the environment, the root logger, the int/str conversion limit."""
import decimal
import locale
import logging
import os
import socket
import sys
import urllib.parse
import warnings


def snapshot():
    c = decimal.getcontext()
    return {
        "decimal.prec": c.prec, "decimal.rounding": c.rounding, "decimal.Emin": c.Emin, "decimal.Emax": c.Emax,
        "decimal.capitals": c.capitals, "decimal.clamp": c.clamp,
        "decimal.traps": tuple(sorted(k.__name__ for k, v in c.traps.items() if v)),
        "recursionlimit": sys.getrecursionlimit(), "cwd": os.getcwd(), "socket.defaulttimeout": socket.getdefaulttimeout(),
        "locale": locale.setlocale(locale.LC_ALL), "stdout": id(sys.stdout), "stderr": id(sys.stderr),
        "warnings.filters": len(warnings.filters), "switchinterval": sys.getswitchinterval(),
        # tables of the standard library that every user of it in the process shares
        "urllib.parse.uses_relative": tuple(urllib.parse.uses_relative), "urllib.parse.uses_netloc": tuple(urllib.parse.uses_netloc),
        "urllib.parse.uses_params": tuple(urllib.parse.uses_params), "urllib.parse.uses_query": tuple(urllib.parse.uses_query),
        "urllib.parse.uses_fragment": tuple(urllib.parse.uses_fragment), "urllib.parse.non_hierarchical": tuple(urllib.parse.non_hierarchical),
        "sys.path": tuple(sys.path), "os.environ": hash(tuple(sorted(os.environ.items()))),
        "logging.root": (logging.root.level, len(logging.root.handlers)), "sys.flags": tuple(sys.flags),
        "float_repr_style": sys.float_repr_style, "int_max_str_digits": sys.get_int_max_str_digits(),
    }


def quick():
    """The cheap part (what a suspended generator could plausibly hold): for use after every single step."""
    c = decimal.getcontext()
    return (c.prec, c.rounding, c.Emin, c.Emax, sys.getrecursionlimit(), len(urllib.parse.uses_relative), len(urllib.parse.uses_netloc),
            len(warnings.filters), id(sys.stdout), id(sys.stderr), socket.getdefaulttimeout())


def diff(a, b):
    return {k: (a[k], b[k]) for k in a if a[k] != b[k]}
