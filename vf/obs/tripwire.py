"""Network / file-write tripwire.

The implementation really calls urlopen for unknown http references, so the
harness never relies on the sandbox being offline: `jsonschema.validators.urlopen`
is replaced by a function that records the URL and raises, and an audit hook
records socket activity and writes outside the scratch area.
"""
import os
import sys
import threading

_events = []
_lock = threading.Lock()
_installed = False
_scratch_prefixes = []
_real_urlopen = None


class NetworkBlocked(OSError):
    pass


def allow_writes_under(path):
    _scratch_prefixes.append(os.path.realpath(path))


def _audit(event, args):
    if event in ("socket.connect", "socket.getaddrinfo", "socket.sendto"):
        with _lock:
            _events.append({"event": event, "args": repr(args)[:200]})
    elif event == "open":
        path, mode = args[0], args[1]
        if isinstance(mode, str) and any(c in mode for c in "wax+") and isinstance(path, (str, bytes)):
            p = os.path.realpath(os.fsdecode(path))
            if p.startswith("/dev/") or p.startswith("/proc/"):
                return
            if any(p.startswith(s) for s in _scratch_prefixes):
                return
            with _lock:
                _events.append({"event": "open-write", "args": p[:200]})


_served = []      # (prefix, function url -> bytes)


def serve(prefix, fn):
    """Documents under `prefix` are answered by fn(url) -> bytes through the (patched) urlopen: the library's own
    urllib transport is exercised without any network."""
    _served.append((prefix, fn))


def unserve_all():
    del _served[:]


class _Response:
    def __init__(self, data):
        self._data = data

    def read(self):
        return self._data

    def __enter__(self):
        return self

    def __exit__(self, *a):
        return False

    def close(self):
        pass


def blocked_urlopen(url, *a, **k):
    u = str(getattr(url, "full_url", url))
    for prefix, fn in _served:
        if u.startswith(prefix):
            with _lock:
                _events.append({"event": "urlopen-served", "args": u[:200]})
            return _Response(fn(u))
    if u.startswith("file://"):
        # local files (CLI --base-uri fixtures): let the real urlopen read them
        with _lock:
            _events.append({"event": "urlopen-file", "args": u[:200]})
        return _real_urlopen(url, *a, **k)
    with _lock:
        _events.append({"event": "urlopen", "args": str(getattr(url, "full_url", url))[:200]})
    raise NetworkBlocked("verif tripwire: urlopen(%r) blocked" % (url,))


def install():
    global _installed
    if _installed:
        return
    _installed = True
    # result files of the worker itself
    from vf.util import VERIF_DIR
    allow_writes_under(VERIF_DIR)
    import tempfile
    allow_writes_under(tempfile.gettempdir())
    sys.addaudithook(_audit)
    import jsonschema.validators as v
    global _real_urlopen
    _real_urlopen = v.urlopen
    v.urlopen = blocked_urlopen
    # make sure `requests` can never be picked up
    sys.modules.setdefault("requests", None)


def events():
    with _lock:
        return list(_events)


def clear():
    with _lock:
        del _events[:]


def count(kind=None):
    with _lock:
        return sum(1 for e in _events if kind is None or e["event"] == kind)
