"""Transparent run-time wrappers (no source hooks)."""
import collections
import threading

_lock = threading.Lock()


class KeywordLog:
    """Counts (class name, keyword, instance JSON type, outcome) for every
    keyword-function call.  Installed by replacing entries of cls.VALIDATORS;
    the wrapper is a pass-through generator with no state of its own."""

    def __init__(self):
        self.cells = collections.Counter()
        self._saved = []

    def install(self, cls, tag):
        from vf.util import jtype
        saved = dict(cls.VALIDATORS)
        self._saved.append((cls, saved))
        cells = self.cells

        def make(kw, fn):
            def wrapper(validator, value, instance, schema):
                n = 0
                exc = None
                try:
                    for e in fn(validator, value, instance, schema) or ():
                        n += 1
                        yield e
                except GeneratorExit:
                    raise
                except BaseException as ex:
                    exc = type(ex).__name__
                    raise
                finally:
                    cells[(tag, kw, jtype(instance), "exc:" + exc if exc else ("err" if n else "ok"))] += 1
            wrapper.__wrapped__ = fn
            return wrapper
        for kw, fn in saved.items():
            cls.VALIDATORS[kw] = make(kw, fn)

    def uninstall(self):
        for cls, saved in self._saved:
            cls.VALIDATORS.clear()
            cls.VALIDATORS.update(saved)
        self._saved = []


class ScopeLog:
    """Event log of push_scope/pop_scope/resolve on RefResolver objects."""

    def __init__(self):
        self.events = []
        self.max_depth = 0
        self._saved = None

    def install(self):
        from jsonschema.validators import RefResolver
        push, pop = RefResolver.push_scope, RefResolver.pop_scope
        self._saved = (push, pop)
        log = self

        def push_scope(self, scope):
            push(self, scope)
            d = len(self._scopes_stack)
            if d > log.max_depth:
                log.max_depth = d
            log.events.append(("push", id(self), d))

        def pop_scope(self):
            pop(self)
            log.events.append(("pop", id(self), len(self._scopes_stack)))
        RefResolver.push_scope = push_scope
        RefResolver.pop_scope = pop_scope

    def uninstall(self):
        from jsonschema.validators import RefResolver
        if self._saved:
            RefResolver.push_scope, RefResolver.pop_scope = self._saved
            self._saved = None

    def clear(self):
        del self.events[:]
