"""sys.monitoring probes on the repository's code (Python 3.12+).

StepCounter : counts PY_START events in repo code = logical steps of one
              operation; raises StepBudgetExceeded inside the monitored code
              when the budget is exhausted (deterministic hang detector).
LineCoverage: LINE events with DISABLE after the first hit -> which lines of
              which repo functions were ever executed (region coverage at ~0 cost).
"""
import os
import sys

from vf.util import repo_dir

mon = sys.monitoring


class StepBudgetExceeded(BaseException):
    """BaseException so that `except Exception` in the code under test cannot swallow it."""


def _repo_prefix():
    return os.path.realpath(os.path.join(repo_dir(), "jsonschema")) + os.sep


class StepCounter:
    TOOL = 3

    def __init__(self, budget=5_000_000):
        self.budget = budget
        self.steps = 0
        self.max_seen = 0
        self.prefix = _repo_prefix()
        self._active = False
        self._own = {}

    def _cb(self, code, offset):
        own = self._own.get(code)
        if own is None:
            fn = code.co_filename
            own = os.path.realpath(fn).startswith(self.prefix) if fn and fn[0] != "<" else False
            self._own[code] = own
        if not own:
            return mon.DISABLE
        self.steps += 1
        if self.steps > self.budget:
            self.steps = 0
            raise StepBudgetExceeded()

    def start(self):
        mon.use_tool_id(self.TOOL, "vf-steps")
        mon.register_callback(self.TOOL, mon.events.PY_START, self._cb)
        mon.set_events(self.TOOL, mon.events.PY_START)
        self._active = True

    def stop(self):
        if self._active:
            mon.set_events(self.TOOL, 0)
            mon.register_callback(self.TOOL, mon.events.PY_START, None)
            mon.free_tool_id(self.TOOL)
            self._active = False

    def reset(self):
        if self.steps > self.max_seen:
            self.max_seen = self.steps
        self.steps = 0


class LineCoverage:
    TOOL = 4

    def __init__(self):
        self.prefix = _repo_prefix()
        self.hit = set()       # (basename, function qualname, line)
        self._own = {}
        self._active = False

    def _cb(self, code, line):
        own = self._own.get(code)
        if own is None:
            fn = code.co_filename
            own = os.path.realpath(fn).startswith(self.prefix) if fn and fn[0] != "<" else False
            self._own[code] = own
        if own:
            self.hit.add((os.path.basename(code.co_filename), code.co_qualname, line))
        return mon.DISABLE

    def start(self):
        mon.use_tool_id(self.TOOL, "vf-lines")
        mon.register_callback(self.TOOL, mon.events.LINE, self._cb)
        mon.set_events(self.TOOL, mon.events.LINE)
        self._active = True

    def stop(self):
        if self._active:
            mon.set_events(self.TOOL, 0)
            mon.register_callback(self.TOOL, mon.events.LINE, None)
            mon.free_tool_id(self.TOOL)
            self._active = False

    def functions_hit(self):
        out = {}
        for base, qual, line in self.hit:
            out.setdefault("%s:%s" % (base, qual.split(".")[-1]), set()).add(line)
        return out


_shared = None


def shared_coverage():
    """The one LineCoverage of this worker process (started by vf.worker before the property module runs; forked
    children report the lines they were first to reach back through vf.props.c18.fork_run)."""
    global _shared
    if _shared is None:
        _shared = LineCoverage()
        _shared.start()
    return _shared


def statement_map():
    """{basename: {function qualname-ish: set(statement lines)}} of the repo's package (tests excluded), from the AST.
    Docstring expressions are left out (they never produce a LINE event)."""
    import ast
    out = {}
    pkg = os.path.join(repo_dir(), "jsonschema")
    for name in sorted(os.listdir(pkg)):
        if not name.endswith(".py"):
            continue
        with open(os.path.join(pkg, name)) as f:
            tree = ast.parse(f.read())
        funcs = {}

        def visit(node, qual):
            for child in ast.iter_child_nodes(node):
                if isinstance(child, (ast.FunctionDef, ast.AsyncFunctionDef)):
                    q = (qual + "." if qual else "") + child.name
                    lines = set()
                    for st in ast.walk(child):
                        if isinstance(st, ast.stmt) and st is not child and not isinstance(st, (ast.FunctionDef, ast.AsyncFunctionDef, ast.ClassDef)):
                            if isinstance(st, ast.Expr) and isinstance(st.value, ast.Constant) and isinstance(st.value.value, str):
                                continue
                            lines.add(st.lineno)
                    # statements of nested functions belong to the nested function
                    for sub in ast.walk(child):
                        if sub is not child and isinstance(sub, (ast.FunctionDef, ast.AsyncFunctionDef)):
                            for st in ast.walk(sub):
                                if isinstance(st, ast.stmt) and st is not sub:
                                    lines.discard(st.lineno)
                    funcs[q] = lines
                    visit(child, q)
                elif isinstance(child, ast.ClassDef):
                    visit(child, (qual + "." if qual else "") + child.name)
                else:
                    visit(child, qual)
        visit(tree, "")
        out[name] = funcs
    return out


def region_lines(basename, funcname):
    """Statement lines of `funcname` in the repo file, grouped by an AST
    pattern so that must-reach regions survive line-number edits.
    Returns {label: set(lines)} for: each `except` handler body, each
    `finally` body, each `for` body, each `if` body / else body."""
    import ast
    path = os.path.join(repo_dir(), "jsonschema", basename)
    with open(path) as f:
        tree = ast.parse(f.read())
    out = {}
    for node in ast.walk(tree):
        if isinstance(node, (ast.FunctionDef, ast.AsyncFunctionDef)) and node.name == funcname:
            n_exc = n_fin = 0
            for sub in ast.walk(node):
                if isinstance(sub, ast.Try):
                    for h in sub.handlers:
                        out["except%d" % n_exc] = {s.lineno for s in h.body}
                        n_exc += 1
                    if sub.finalbody:
                        out["finally%d" % n_fin] = {s.lineno for s in sub.finalbody}
                        n_fin += 1
            out["body"] = {s.lineno for s in ast.walk(node) if isinstance(s, ast.stmt) and s is not node}
    return out


class FaultInjected(Exception):
    """Raised by LineFaults at the k-th eligible statement start."""


class LineFaults:
    """Source-free failpoints: raise FaultInjected at the k-th statement start
    inside keyword-function bodies of the given repo files.

    Excluded sites (computed from the AST): `try:` header lines and bodies of
    `finally` - CPython fires a LINE event on the `try:` line BETWEEN a
    push_scope() call and the protected region, where no real exception can
    originate; injecting there manufactures leaks the program cannot have."""
    TOOL = 2

    def __init__(self, basenames=("_validators.py", "_legacy_validators.py")):
        import ast
        self.eligible = {}
        self.excluded = {}
        for base in basenames:
            path = os.path.join(repo_dir(), "jsonschema", base)
            with open(path) as f:
                tree = ast.parse(f.read())
            ok, bad = set(), set()
            for fn in ast.walk(tree):
                if not isinstance(fn, (ast.FunctionDef, ast.AsyncFunctionDef)):
                    continue
                for node in ast.walk(fn):
                    if isinstance(node, ast.stmt) and node is not fn:
                        ok.add(node.lineno)
                for node in ast.walk(fn):
                    if isinstance(node, ast.Try):
                        bad.add(node.lineno)
                        for s in node.finalbody:
                            for sub in ast.walk(s):
                                if hasattr(sub, "lineno"):
                                    bad.add(sub.lineno)
            self.eligible[os.path.realpath(path)] = ok - bad
            self.excluded[base] = sorted(bad & ok)
        self.count = 0
        self.target = None
        self.fired = None
        self._files = {}
        self._active = False

    def _cb(self, code, line):
        lines = self._files.get(code)
        if lines is None:
            lines = self.eligible.get(os.path.realpath(code.co_filename), False) if code.co_filename[:1] != "<" else False
            self._files[code] = lines
        if lines is False or line not in lines:
            return mon.DISABLE
        self.count += 1
        if self.target is not None and self.count == self.target:
            self.fired = (os.path.basename(code.co_filename), code.co_qualname, line)
            self.target = None
            raise FaultInjected("%s:%s:%d" % self.fired)

    def start(self):
        mon.use_tool_id(self.TOOL, "vf-faults")
        mon.register_callback(self.TOOL, mon.events.LINE, self._cb)
        mon.set_events(self.TOOL, mon.events.LINE)
        self._active = True

    def stop(self):
        if self._active:
            mon.set_events(self.TOOL, 0)
            mon.register_callback(self.TOOL, mon.events.LINE, None)
            mon.free_tool_id(self.TOOL)
            self._active = False

    def arm(self, k):
        self.count = 0
        self.target = k
        self.fired = None

    def disarm(self):
        self.target = None
        n = self.count
        self.count = 0
        return n
