"""Canonical error fingerprints."""
from vf.util import jdump


def _p(path):
    return tuple(path)


def fp(e, message=True, absolute=False):
    """(validator, message, path, schema_path, sorted context fingerprints)."""
    path = e.absolute_path if absolute else e.relative_path
    spath = e.absolute_schema_path if absolute else e.relative_schema_path
    ctx = sorted((fp(c, message, absolute=False) for c in (e.context or ())), key=repr)
    return (repr(e.validator), e.message if message else None, _p(path), _p(spath), tuple(ctx))


def fps(errors, message=True):
    """Sorted multiset of fingerprints (order-free comparison)."""
    return sorted((fp(e, message) for e in errors), key=repr)


def loc(e):
    """Location-only fingerprint: (absolute instance path, keyword, contexts)."""
    ctx = sorted((loc(c) for c in (e.context or ())), key=repr)
    return (tuple(e.absolute_path), repr(e.validator), tuple(ctx))


def locs(errors):
    return sorted((loc(e) for e in errors), key=repr)


def show(fplist):
    return jdump(fplist)


def closure(errors):
    """All errors in the transitive context closure."""
    stack = list(errors)
    out = []
    while stack:
        e = stack.pop()
        out.append(e)
        stack.extend(e.context or ())
    return out
