r"""Own backtracking matcher for the regex subset on which ECMA 262 and Python
`re` agree: literals, escaped punctuation, `.`, classes with ranges and
negation, `^ $`, greedy `* + ? {m} {m,} {m,n}`, groups `( )` `(?: )`,
alternation, and back-references `\1`..`\9` to a capturing group that stands directly in
the top-level sequence before the reference (so it has always participated and is never
re-entered: the cases where the two dialects treat unset or repeated captures differently are
left out).  Code-point based; subject strings must contain no line
terminator (there `.` and `$` differ between the two dialects).

`search(pattern, s)` -> bool (unanchored, as `pattern`/`patternProperties`
prescribe).  `Unsupported` is raised for anything outside the subset.
"""
import functools

LINE_TERMINATORS = "\n\r\u2028\u2029"
_META = set("\\^$.|?*+()[]{}")


class Unsupported(Exception):
    pass


class _P:
    def __init__(self, src):
        self.s = src
        self.i = 0
        self.ngroups = 0

    def peek(self):
        return self.s[self.i] if self.i < len(self.s) else None

    def eat(self, c=None):
        ch = self.peek()
        if ch is None or (c is not None and ch != c):
            raise Unsupported("expected %r at %d in %r" % (c, self.i, self.s))
        self.i += 1
        return ch

    def alt(self):
        branches = [self.seq()]
        while self.peek() == "|":
            self.eat()
            branches.append(self.seq())
        return branches[0] if len(branches) == 1 else ("alt", branches)

    def seq(self):
        items = []
        while self.peek() is not None and self.peek() not in "|)":
            items.append(self.quant())
        return ("seq", items)

    def quant(self):
        a = self.atom()
        c = self.peek()
        while c is not None and c in "*+?{":
            if a[0] in ("bol", "eol"):
                raise Unsupported("quantified anchor")
            if c == "*":
                self.eat(); lo, hi = 0, None
            elif c == "+":
                self.eat(); lo, hi = 1, None
            elif c == "?":
                self.eat(); lo, hi = 0, 1
            else:
                self.eat("{")
                lo = self.number()
                hi = lo
                if self.peek() == ",":
                    self.eat()
                    hi = None if self.peek() == "}" else self.number()
                self.eat("}")
                if hi is not None and hi < lo:
                    raise Unsupported("bad range")
                if lo > 50 or (hi or 0) > 50:
                    raise Unsupported("big count")
            if self.peek() in ("?", "+") and False:
                raise Unsupported("lazy/possessive")
            a = ("rep", a, lo, hi)
            c = self.peek()
            if c is not None and c in "*+?{":
                raise Unsupported("stacked quantifier")
        return a

    def number(self):
        j = self.i
        while self.peek() is not None and self.peek() in "0123456789":
            self.i += 1
        if j == self.i:
            raise Unsupported("number expected")
        return int(self.s[j:self.i])

    def atom(self):
        c = self.eat()
        if c == "(":
            n = 0
            if self.peek() == "?":
                self.eat()
                if self.peek() != ":":
                    raise Unsupported("group extension")
                self.eat()
            else:
                self.ngroups += 1
                n = self.ngroups
            inner = self.alt()
            self.eat(")")
            return ("grp", inner, n)
        if c == "[":
            return self.cls()
        if c == ".":
            return ("any",)
        if c == "^":
            return ("bol",)
        if c == "$":
            return ("eol",)
        if c == "\\":
            e = self.eat()
            if e in _META or e in "/-":
                return ("lit", e)
            if e in "123456789":
                if self.peek() is not None and self.peek() in "0123456789":
                    raise Unsupported("multi-digit back-reference")
                return ("bref", int(e))
            raise Unsupported("escape \\%s" % e)
        if c in _META:
            raise Unsupported("bare metachar %r" % c)
        return ("lit", c)

    def cls(self):
        neg = False
        if self.peek() == "^":
            self.eat()
            neg = True
        items = []
        if self.peek() == "]":
            raise Unsupported("empty class / leading ]")
        while self.peek() != "]":
            lo = self.cls_char()
            if self.peek() == "-" and self.i + 1 < len(self.s) and self.s[self.i + 1] != "]":
                self.eat()
                hi = self.cls_char()
                if ord(hi) < ord(lo):
                    raise Unsupported("bad class range")
                items.append((lo, hi))
            else:
                items.append((lo, lo))
        self.eat("]")
        return ("cls", neg, tuple(items))

    def cls_char(self):
        c = self.eat()
        if c == "\\":
            e = self.eat()
            if e in _META or e in "/-":
                return e
            raise Unsupported("class escape")
        if c in "[-":
            raise Unsupported("bare %r in class" % c)
        return c


@functools.lru_cache(maxsize=4096)
def parse(pattern):
    p = _P(pattern)
    node = p.alt()
    if p.i != len(pattern):
        raise Unsupported("trailing %r" % pattern[p.i:])
    _check_brefs(node)
    return node


def _brefs(node, acc):
    if isinstance(node, tuple):
        if node and node[0] == "bref":
            acc.append(node[1])
        for x in node:
            if isinstance(x, (tuple, list)):
                _brefs(x, acc)
    elif isinstance(node, list):
        for x in node:
            _brefs(x, acc)


def _check_brefs(node):
    """Back-references only to capturing groups that are direct members of the top-level sequence, from a later member."""
    acc = []
    _brefs(node, acc)
    if not acc:
        return
    if node[0] != "seq":
        raise Unsupported("back-reference below a top-level alternation")
    safe = set()
    for item in node[1]:
        used = []
        _brefs(item, used)
        if any(n not in safe for n in used):
            raise Unsupported("back-reference to a group that may not have participated")
        if item[0] == "grp" and item[2]:
            safe.add(item[2])


def supported(pattern):
    try:
        parse(pattern)
        return True
    except Unsupported:
        return False


def _m(node, s, i, k, caps=None):
    t = node[0]
    if t == "lit":
        return i < len(s) and s[i] == node[1] and k(i + 1)
    if t == "any":
        return i < len(s) and k(i + 1)
    if t == "cls":
        if i >= len(s):
            return False
        c = s[i]
        hit = any(lo <= c <= hi for lo, hi in node[2])
        return (hit != node[1]) and k(i + 1)
    if t == "bol":
        return i == 0 and k(i)
    if t == "eol":
        return i == len(s) and k(i)
    if t == "grp":
        n = node[2]
        if not n or caps is None:
            return _m(node[1], s, i, k, caps)

        def kk(j):
            old = caps.get(n)
            caps[n] = (i, j)
            if k(j):
                return True
            caps[n] = old
            return False
        return _m(node[1], s, i, kk, caps)
    if t == "bref":
        span = caps.get(node[1]) if caps is not None else None
        if span is None:
            raise Unsupported("back-reference to an unset group")
        sub = s[span[0]:span[1]]
        return s.startswith(sub, i) and k(i + len(sub))
    if t == "seq":
        items = node[1]

        def go(idx, j):
            if idx == len(items):
                return k(j)
            return _m(items[idx], s, j, lambda j2: go(idx + 1, j2), caps)
        return go(0, i)
    if t == "alt":
        return any(_m(b, s, i, k, caps) for b in node[1])
    if t == "rep":
        sub, lo, hi = node[1], node[2], node[3]

        def go(count, j):
            if hi is None or count < hi:
                if _m(sub, s, j, lambda j2: (j2 != j or count < lo) and go(count + 1, j2), caps):
                    return True
            return count >= lo and k(j)
        return go(0, i)
    raise AssertionError(t)


def search(pattern, s):
    if any(c in s for c in LINE_TERMINATORS):
        raise Unsupported("line terminator in subject")
    node = parse(pattern)
    for start in range(len(s) + 1):
        if _m(node, s, start, lambda j: True, {}):
            return True
    return False
