"""Own RFC 3986 reference resolution (section 5.2) and RFC 6901 JSON Pointer
encoding/decoding.  Nothing here imports urllib or /repo."""
import re

_RX = re.compile(r"^(([^:/?#]+):)?(//([^/?#]*))?([^?#]*)(\?([^#]*))?(#(.*))?$", re.S)


def split(u):
    m = _RX.match(u)
    return (m.group(2), m.group(4), m.group(5), m.group(7), m.group(9))


def recompose(scheme, authority, path, query, fragment):
    out = ""
    if scheme is not None:
        out += scheme + ":"
    if authority is not None:
        out += "//" + authority
    out += path
    if query is not None:
        out += "?" + query
    if fragment is not None:
        out += "#" + fragment
    return out


def remove_dot_segments(path):
    inp = path
    out = []
    while inp:
        if inp.startswith("../"):
            inp = inp[3:]
        elif inp.startswith("./"):
            inp = inp[2:]
        elif inp.startswith("/./"):
            inp = inp[2:]
        elif inp == "/.":
            inp = "/"
        elif inp.startswith("/../"):
            inp = inp[3:]
            if out:
                out.pop()
        elif inp == "/..":
            inp = "/"
            if out:
                out.pop()
        elif inp in (".", ".."):
            inp = ""
        else:
            j = inp.find("/", 1)
            if j == -1:
                out.append(inp)
                inp = ""
            else:
                out.append(inp[:j])
                inp = inp[j:]
    return "".join(out)


def _merge(bauth, bpath, rpath):
    if bauth is not None and bpath == "":
        return "/" + rpath
    j = bpath.rfind("/")
    return bpath[:j + 1] + rpath if j >= 0 else rpath


def resolve(base, ref):
    """RFC 3986 5.2.2 (strict)."""
    bs, ba, bp, bq, bf = split(base)
    rs, ra, rp, rq, rf = split(ref)
    if rs is not None:
        ts, ta, tp, tq = rs, ra, remove_dot_segments(rp), rq
    else:
        if ra is not None:
            ta, tp, tq = ra, remove_dot_segments(rp), rq
        else:
            if rp == "":
                tp = bp
                tq = rq if rq is not None else bq
            else:
                if rp.startswith("/"):
                    tp = remove_dot_segments(rp)
                else:
                    tp = remove_dot_segments(_merge(ba, bp, rp))
                tq = rq
            ta = ba
        ts = bs
    return recompose(ts, ta, tp, tq, rf)


def defrag(u):
    j = u.find("#")
    if j == -1:
        return u, ""
    return u[:j], u[j + 1:]


def norm_key(u):
    """Two spellings designate the same document iff equal after dropping an
    empty or non-empty fragment."""
    return defrag(u)[0]


# ---------------------------------------------------------------- RFC 6901

def ptr_escape(token):
    return token.replace("~", "~0").replace("/", "~1")


def ptr_unescape(token):
    out = []
    i = 0
    while i < len(token):
        c = token[i]
        if c == "~" and i + 1 < len(token) and token[i + 1] in "01":
            out.append("~" if token[i + 1] == "0" else "/")
            i += 2
        else:
            out.append(c)
            i += 1
    return "".join(out)


def ptr_encode(tokens):
    return "".join("/" + ptr_escape(t) for t in tokens)


# characters that may appear literally in a URI fragment (RFC 3986: pchar / "/" / "?")
_FRAG_OK = set("ABCDEFGHIJKLMNOPQRSTUVWXYZabcdefghijklmnopqrstuvwxyz0123456789-._~!$&'()*+,;=:@/?")


def pct_encode(s, extra=(), non_ascii_raw=False):
    out = []
    for ch in s:
        if ch in _FRAG_OK and ch not in extra:
            out.append(ch)
        elif ord(ch) > 127 and non_ascii_raw:
            out.append(ch)
        else:
            out.extend("%%%02X" % b for b in ch.encode("utf-8"))
    return "".join(out)


def pct_decode(s):
    bs = bytearray()
    i = 0
    raw = s.encode("utf-8")
    while i < len(raw):
        c = raw[i:i + 1]
        if c == b"%" and i + 2 < len(raw) + 0 and re.match(rb"^[0-9A-Fa-f]{2}$", raw[i + 1:i + 3] or b""):
            bs.append(int(raw[i + 1:i + 3], 16))
            i += 3
        else:
            bs += c
            i += 1
    return bs.decode("utf-8", "replace")


def fragment_for(tokens, extra=(), non_ascii_raw=False):
    """URI fragment (without '#') that is the JSON Pointer to `tokens`."""
    return pct_encode(ptr_encode(tokens), extra=extra, non_ascii_raw=non_ascii_raw)


class PointerError(Exception):
    pass


_INDEX = re.compile(r"^(0|[1-9][0-9]*)$")


def ptr_walk(doc, fragment):
    """Evaluate a URI-fragment JSON pointer; returns the addressed value."""
    p = pct_decode(fragment)
    if p == "":
        return doc
    if not p.startswith("/"):
        raise PointerError("pointer must start with /")
    cur = doc
    for raw in p[1:].split("/"):
        tok = ptr_unescape(raw)
        if isinstance(cur, dict):
            if tok not in cur:
                raise PointerError("missing key %r" % tok)
            cur = cur[tok]
        elif isinstance(cur, list):
            if not _INDEX.match(tok) or not all(c in "0123456789" for c in tok):
                raise PointerError("not an index %r" % tok)
            i = int(tok)
            if i >= len(cur):
                raise PointerError("index out of range")
            cur = cur[i]
        else:
            raise PointerError("token on scalar")
    return cur
