"""M: an independent executable reading of JSON Schema drafts 3, 4, 6, 7
(validation verdict only).  Written from the draft texts; shares no code
with /repo.

    M = Model(draft, root_schema, base_uri="", store={}, eq=jeq)
    M.valid(instance) -> bool

Out of the model's domain (raises OutOfDomain): regexes outside the common
ECMA/Python subset or subjects with line terminators, float multipleOf
outside C09's exact sub-domain, unknown Draft 3 type names, unresolvable
references.  `format`, `content*` and annotations have no effect.
"""
from fractions import Fraction

from vf.model import regex as rx
from vf.model import uri as U
from vf.model.equal import jeq
from vf.model.numeric import exact_domain, is_multiple, is_num


class OutOfDomain(Exception):
    pass


class Unresolvable(OutOfDomain):
    pass


TYPES_D4 = ("array", "boolean", "integer", "null", "number", "object", "string")


def is_type(draft, inst, name):
    if name == "any" and draft == 3:
        return True
    if name == "array":
        return isinstance(inst, list)
    if name == "boolean":
        return isinstance(inst, bool)
    if name == "null":
        return inst is None
    if name == "object":
        return isinstance(inst, dict)
    if name == "string":
        return isinstance(inst, str)
    if name == "number":
        return is_num(inst)
    if name == "integer":
        if isinstance(inst, bool):
            return False
        if isinstance(inst, int):
            return True
        if draft >= 6 and isinstance(inst, float):
            return Fraction(inst).denominator == 1
        return False
    raise OutOfDomain("unknown type name %r" % (name,))


def _search(pattern, s):
    try:
        return rx.search(pattern, s)
    except rx.Unsupported as e:
        raise OutOfDomain("regex: %s" % e)


class Model:
    def __init__(self, draft, root, base_uri="", store=None, eq=jeq, max_steps=2_000_000):
        self.draft = draft
        self.root = root
        self.eq = eq
        self.idkw = "id" if draft <= 4 else "$id"
        self.docs = {}
        for k, v in (store or {}).items():
            self.docs[U.norm_key(k)] = v
        rid = ""
        if isinstance(root, dict) and isinstance(root.get(self.idkw), str):
            rid = root[self.idkw]
        self.base0 = base_uri
        self.root_base = rid if base_uri == "" else U.resolve(base_uri, rid) if rid else base_uri
        self.docs.setdefault(U.norm_key(self.root_base), root)
        self.steps = 0
        self.max_steps = max_steps

    # ------------------------------------------------------------ public
    def valid(self, inst, schema=None, base=None):
        if schema is None:
            schema = self.root
        if base is None:
            base = self.base0
        return self.v(schema, inst, base)

    # ------------------------------------------------------------ evaluator
    def v(self, s, x, base):
        self.steps += 1
        if self.steps > self.max_steps:
            raise OutOfDomain("model step budget")
        d = self.draft
        if s is True or s is False:
            if d >= 6:
                return s
            raise OutOfDomain("boolean schema before draft 6")
        if not isinstance(s, dict):
            raise OutOfDomain("non-schema value used as schema: %r" % (s,))
        if "$ref" in s and isinstance(s["$ref"], str):
            # siblings of $ref (including id) are ignored up to draft 7
            target, tbase = self.resolve(base, s["$ref"])
            return self.v(target, x, tbase)
        sid = s.get(self.idkw)
        if isinstance(sid, str) and sid:
            base = U.resolve(base, sid) if base else sid
        for k, val in s.items():
            f = getattr(self, "kw_" + _san(k), None)
            if f is None:
                continue
            if not _in_draft(d, k):
                continue
            if not f(val, x, s, base):
                return False
        return True

    def resolve(self, base, ref):
        url = U.resolve(base, ref) if base else ref
        doc_url, frag = U.defrag(url)
        if doc_url not in self.docs:
            raise Unresolvable("no document %r" % doc_url)
        doc = self.docs[doc_url]
        try:
            target = U.ptr_walk(doc, frag)
        except U.PointerError as e:
            raise Unresolvable(str(e))
        return target, url

    # ------------------------------------------------------------ any-instance keywords
    def kw_type(self, val, x, s, base):
        d = self.draft
        types = [val] if isinstance(val, str) else val
        for t in types:
            if isinstance(t, dict) and d == 3:
                if self.v(t, x, base):
                    return True
            elif isinstance(t, str):
                if is_type(d, x, t):
                    return True
            else:
                raise OutOfDomain("type entry %r" % (t,))
        return False

    def kw_disallow(self, val, x, s, base):
        types = [val] if isinstance(val, str) else val
        for t in types:
            if isinstance(t, dict):
                if self.v(t, x, base):
                    return False
            elif isinstance(t, str):
                if is_type(3, x, t):
                    return False
            else:
                raise OutOfDomain("disallow entry")
        return True

    def kw_extends(self, val, x, s, base):
        subs = [val] if isinstance(val, dict) else val
        return all(self.v(t, x, base) for t in subs)

    def kw_enum(self, val, x, s, base):
        return any(self.eq(x, e) for e in val)

    def kw_const(self, val, x, s, base):
        return self.eq(x, val)

    def kw_allOf(self, val, x, s, base):
        return all(self.v(t, x, base) for t in val)

    def kw_anyOf(self, val, x, s, base):
        return any(self.v(t, x, base) for t in val)

    def kw_oneOf(self, val, x, s, base):
        return sum(1 for t in val if self.v(t, x, base)) == 1

    def kw_not(self, val, x, s, base):
        return not self.v(val, x, base)

    def kw_if(self, val, x, s, base):
        if self.v(val, x, base):
            return self.v(s["then"], x, base) if "then" in s else True
        return self.v(s["else"], x, base) if "else" in s else True

    # ------------------------------------------------------------ numbers
    def kw_minimum(self, val, x, s, base):
        if not is_num(x):
            return True
        excl = self.draft <= 4 and s.get("exclusiveMinimum") is True
        return Fraction(x) > Fraction(val) if excl else Fraction(x) >= Fraction(val)

    def kw_maximum(self, val, x, s, base):
        if not is_num(x):
            return True
        excl = self.draft <= 4 and s.get("exclusiveMaximum") is True
        return Fraction(x) < Fraction(val) if excl else Fraction(x) <= Fraction(val)

    def kw_exclusiveMinimum(self, val, x, s, base):
        if self.draft <= 4 or not is_num(x):
            return True          # boolean modifier, handled by minimum
        return Fraction(x) > Fraction(val)

    def kw_exclusiveMaximum(self, val, x, s, base):
        if self.draft <= 4 or not is_num(x):
            return True
        return Fraction(x) < Fraction(val)

    def kw_multipleOf(self, val, x, s, base):
        if not is_num(x):
            return True
        if not exact_domain(x, val):
            raise OutOfDomain("float multipleOf outside the exact sub-domain")
        return is_multiple(x, val)

    kw_divisibleBy = kw_multipleOf

    # ------------------------------------------------------------ strings
    def kw_minLength(self, val, x, s, base):
        return not isinstance(x, str) or len(x) >= val

    def kw_maxLength(self, val, x, s, base):
        return not isinstance(x, str) or len(x) <= val

    def kw_pattern(self, val, x, s, base):
        return not isinstance(x, str) or _search(val, x)

    # ------------------------------------------------------------ arrays
    def kw_items(self, val, x, s, base):
        if not isinstance(x, list):
            return True
        if isinstance(val, list):
            return all(self.v(sub, el, base) for sub, el in zip(val, x))
        return all(self.v(val, el, base) for el in x)

    def kw_additionalItems(self, val, x, s, base):
        if not isinstance(x, list):
            return True
        items = s.get("items")
        if not isinstance(items, list):
            return True      # only meaningful next to tuple-form items
        extra = x[len(items):]
        if val is True:
            return True
        if val is False:
            return not extra
        return all(self.v(val, el, base) for el in extra)

    def kw_minItems(self, val, x, s, base):
        return not isinstance(x, list) or len(x) >= val

    def kw_maxItems(self, val, x, s, base):
        return not isinstance(x, list) or len(x) <= val

    def kw_uniqueItems(self, val, x, s, base):
        if val is not True or not isinstance(x, list):
            return True
        for i in range(len(x)):
            for j in range(i + 1, len(x)):
                if self.eq(x[i], x[j]):
                    return False
        return True

    def kw_contains(self, val, x, s, base):
        if not isinstance(x, list):
            return True
        return any(self.v(val, el, base) for el in x)

    # ------------------------------------------------------------ objects
    def kw_properties(self, val, x, s, base):
        if not isinstance(x, dict):
            return True
        for name, sub in val.items():
            if name in x:
                if not self.v(sub, x[name], base):
                    return False
            elif self.draft == 3 and isinstance(sub, dict) and sub.get("required") is True \
                    and "$ref" not in sub:
                return False
            elif self.draft == 3 and isinstance(sub, dict) and sub.get("required") is True:
                # `required` next to $ref in a property subschema: the parent reads
                # it lexically in this implementation; not claimed either way.
                raise OutOfDomain("draft3 required next to $ref")
        return True

    def kw_patternProperties(self, val, x, s, base):
        if not isinstance(x, dict):
            return True
        for pat, sub in val.items():
            for name, v in x.items():
                if _search(pat, name) and not self.v(sub, v, base):
                    return False
        return True

    def kw_additionalProperties(self, val, x, s, base):
        if not isinstance(x, dict):
            return True
        props = s.get("properties", {})
        pats = s.get("patternProperties", {})
        if not isinstance(props, dict):
            props = {}
        if not isinstance(pats, dict):
            pats = {}
        for name, v in x.items():
            if name in props:
                continue
            if any(_search(p, name) for p in pats):
                continue
            if val is False:
                return False
            if val is True:
                continue
            if not self.v(val, v, base):
                return False
        return True

    def kw_required(self, val, x, s, base):
        if self.draft == 3:
            return True       # boolean, read by the parent's `properties`
        if not isinstance(x, dict):
            return True
        return all(name in x for name in val)

    def kw_minProperties(self, val, x, s, base):
        return not isinstance(x, dict) or len(x) >= val

    def kw_maxProperties(self, val, x, s, base):
        return not isinstance(x, dict) or len(x) <= val

    def kw_dependencies(self, val, x, s, base):
        if not isinstance(x, dict):
            return True
        for name, dep in val.items():
            if name not in x:
                continue
            if isinstance(dep, str):
                if self.draft != 3:
                    raise OutOfDomain("string dependency after draft 3")
                if dep not in x:
                    return False
            elif isinstance(dep, list):
                if not all(n in x for n in dep):
                    return False
            else:
                if not self.v(dep, x, base):
                    return False
        return True

    def kw_propertyNames(self, val, x, s, base):
        if not isinstance(x, dict):
            return True
        return all(self.v(val, name, base) for name in x)


def _san(k):
    return k if k.isidentifier() else "_"


_D3 = {"type", "disallow", "extends", "enum", "minimum", "maximum", "exclusiveMinimum",
       "exclusiveMaximum", "divisibleBy", "minLength", "maxLength", "pattern", "items",
       "additionalItems", "minItems", "maxItems", "uniqueItems", "properties",
       "patternProperties", "additionalProperties", "required", "dependencies"}
_D4 = {"type", "enum", "allOf", "anyOf", "oneOf", "not", "minimum", "maximum", "exclusiveMinimum",
       "exclusiveMaximum", "multipleOf", "minLength", "maxLength", "pattern", "items",
       "additionalItems", "minItems", "maxItems", "uniqueItems", "properties",
       "patternProperties", "additionalProperties", "required", "dependencies",
       "minProperties", "maxProperties"}
_D6 = _D4 | {"const", "contains", "propertyNames"}
_D7 = _D6 | {"if"}
VOCAB = {3: _D3, 4: _D4, 6: _D6, 7: _D7}


def _in_draft(d, k):
    return k in VOCAB[d]


def verdict(draft, schema, inst, eq=jeq, base_uri="", store=None):
    return Model(draft, schema, base_uri=base_uri, store=store, eq=eq).valid(inst)
