"""JSON equality, written from the JSON data model (no code shared with /repo).

jeq    : strict JSON equality (a boolean never equals a number; numbers compare
         by exact mathematical value; arrays ordered; objects unordered).
loose  : the same relation except that true==1 and false==0 at every depth
         (what naive Python == gives).  A case whose verdict differs between
         the two relations is "equality sensitive" and belongs to C08.
"""
from decimal import Decimal
from fractions import Fraction

NUM = (int, float, Decimal)          # numbers as Python hands them to the library (json.loads(parse_float=Decimal))


def _num_eq(a, b):
    # exact: int/float comparison through rationals
    if isinstance(a, int) and isinstance(b, int):
        return a == b
    return Fraction(a) == Fraction(b)


def jeq(a, b):
    if isinstance(a, bool) or isinstance(b, bool):
        return isinstance(a, bool) and isinstance(b, bool) and a is b
    if a is None or b is None:
        return a is None and b is None
    an = isinstance(a, NUM)
    bn = isinstance(b, NUM)
    if an or bn:
        return an and bn and _num_eq(a, b)
    if isinstance(a, str) or isinstance(b, str):
        return isinstance(a, str) and isinstance(b, str) and a == b
    if isinstance(a, list) or isinstance(b, list):
        if not (isinstance(a, list) and isinstance(b, list)) or len(a) != len(b):
            return False
        return all(jeq(x, y) for x, y in zip(a, b))
    if isinstance(a, dict) and isinstance(b, dict):
        if len(a) != len(b):
            return False
        for k, v in a.items():
            if k not in b or not jeq(v, b[k]):
                return False
        return True
    return False


def loose(a, b):
    def num(x):
        return isinstance(x, (bool,) + NUM)
    if num(a) or num(b):
        return num(a) and num(b) and _num_eq(int(a) if isinstance(a, bool) else a,
                                             int(b) if isinstance(b, bool) else b)
    if a is None or b is None:
        return a is None and b is None
    if isinstance(a, str) or isinstance(b, str):
        return isinstance(a, str) and isinstance(b, str) and a == b
    if isinstance(a, list) or isinstance(b, list):
        if not (isinstance(a, list) and isinstance(b, list)) or len(a) != len(b):
            return False
        return all(loose(x, y) for x, y in zip(a, b))
    if isinstance(a, dict) and isinstance(b, dict):
        if len(a) != len(b):
            return False
        for k, v in a.items():
            if k not in b or not loose(v, b[k]):
                return False
        return True
    return False


def all_distinct(items, eq=jeq):
    for i in range(len(items)):
        for j in range(i + 1, len(items)):
            if eq(items[i], items[j]):
                return False
    return True
