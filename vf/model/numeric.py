"""Exact numeric semantics (Fractions) and the C09 exactness predicate."""
from decimal import Decimal
from fractions import Fraction
import math

TWO53 = 2 ** 53


def is_num(x):
    # (decimal.Decimal is how json.loads(parse_float=Decimal) hands numbers over; it is a JSON number like the others)
    if isinstance(x, Decimal):
        return x.is_finite()
    return isinstance(x, (int, float)) and not isinstance(x, bool)


def F(x):
    return Fraction(x)


def is_multiple(i, b):
    """Exact divisibility of the exact values."""
    if i == 0:
        return True
    return (F(i) / F(b)).denominator == 1


def _pow2(x):
    """x is a positive float that is an exact power of two."""
    if x <= 0:
        return False
    m, _e = math.frexp(x)
    return m == 0.5


def _dyadic(x):
    """(odd numerator magnitude, exponent) with x = +-n * 2**e ; (0,0) for zero."""
    fr = F(x)
    if fr == 0:
        return 0, 0
    n, d = abs(fr.numerator), fr.denominator   # d is a power of two for floats, 1 for ints
    e = 0
    while n % 2 == 0:
        n //= 2
        e += 1
    e -= d.bit_length() - 1
    return n, e


def exact_domain(i, b):
    """True when the property C09 claims an exact verdict for
    multipleOf/divisibleBy with instance i and divisor b (b > 0).

    A conservative sub-domain of the one the property describes:
      * both integers: always;
      * otherwise every integer operand has magnitude <= 2**53 and
        - instance is 0, or
        - the divisor is a float power of two and |i/b| >= 2**-1000
          (no underflow; overflow is fine: exact fallback), or
        - the divisor is an integer and the instance a float (exact remainder), or
        - both operands are dyadic with odd parts < 2**20 and
          2**-1000 <= |i/b| < 2**32 (a correctly rounded quotient is an
          integer exactly when the true quotient is).
    """
    ii, bi = isinstance(i, int), isinstance(b, int)
    if ii and bi:
        return True
    if ii and abs(i) > TWO53:
        return False
    if bi and abs(b) > TWO53:
        return False
    if i == 0:
        return True
    q = abs(F(i) / F(b))
    tiny = Fraction(1, 2 ** 1000)
    if isinstance(b, float) and _pow2(b):
        return q >= tiny
    if bi and isinstance(i, float):
        return True
    n1, _ = _dyadic(i)
    n2, _ = _dyadic(b)
    if n1 < 2 ** 20 and n2 < 2 ** 20 and tiny <= q < 2 ** 32:
        return True
    return False
