"""Own recognisers for the formats that have a crisp grammar.

ipv4  : four ASCII-decimal octets 0-255 without leading zeros
ipv6  : RFC 4291 section 2.2 text forms; no zone id, no prefix length
date  : RFC 3339 full-date naming a real proleptic-Gregorian day
email : contains '@'  (what the property states)
regex : "the engine is the grammar": re.compile succeeds
"""
import glob
import json
import os
import re
import warnings

_DIG = "0123456789"
_HEX = set("0123456789abcdefABCDEF")


def ipv4(s):
    parts = s.split(".")
    if len(parts) != 4:
        return False
    for p in parts:
        if not p or len(p) > 3 or any(c not in _DIG for c in p):
            return False
        if len(p) > 1 and p[0] == "0":
            return False
        if int(p) > 255:
            return False
    return True


def _hextet(p):
    return 1 <= len(p) <= 4 and all(c in _HEX for c in p)


def _count_groups(parts, allow_v4_last):
    """Number of 16-bit groups in a ':'-separated run, or None if malformed."""
    n = 0
    for i, p in enumerate(parts):
        if "." in p:
            if not (allow_v4_last and i == len(parts) - 1 and ipv4(p)):
                return None
            n += 2
        elif _hextet(p):
            n += 1
        else:
            return None
    return n


def ipv6(s):
    if s.count("::") > 1 or ":::" in s:
        return False
    if "::" in s:
        head, tail = s.split("::")
        hs = head.split(":") if head else []
        ts = tail.split(":") if tail else []
        nh = _count_groups(hs, allow_v4_last=False)
        nt = _count_groups(ts, allow_v4_last=True)
        if nh is None or nt is None:
            return False
        return nh + nt <= 7
    parts = s.split(":")
    n = _count_groups(parts, allow_v4_last=True)
    return n == 8


def _leap(y):
    return y % 4 == 0 and (y % 100 != 0 or y % 400 == 0)


def date(s):
    if len(s) != 10 or s[4] != "-" or s[7] != "-":
        return False
    y, m, d = s[0:4], s[5:7], s[8:10]
    if any(c not in _DIG for c in y + m + d):
        return False
    y, m, d = int(y), int(m), int(d)
    if not 1 <= m <= 12:
        return False
    dim = [31, 29 if _leap(y) else 28, 31, 30, 31, 30, 31, 31, 30, 31, 30, 31][m - 1]
    return 1 <= d <= dim


def date_year_zero(s):
    return len(s) == 10 and s[:4] == "0000"


def email(s):
    return "@" in s


def regex(s):
    try:
        with warnings.catch_warnings():
            warnings.simplefilter("ignore")
            re.compile(s)
        return True
    except (re.error, OverflowError):
        return False


RECOGNISERS = {"ipv4": ipv4, "ip-address": ipv4, "ipv6": ipv6, "date": date, "email": email,
               "idn-email": email, "regex": regex}


def calibrate():
    """Run the recognisers over the suite's optional/format files."""
    from vf.util import repo_dir
    n = 0
    bad = []
    for d in (3, 4, 6, 7):
        for fn in sorted(glob.glob(os.path.join(repo_dir(), "json", "tests", "draft%d" % d, "optional", "format", "*.json")) +
                         glob.glob(os.path.join(repo_dir(), "json", "tests", "draft%d" % d, "optional", "format.json"))):
            with open(fn) as f:
                groups = json.load(f)
            for g in groups:
                fmt = g["schema"].get("format") if isinstance(g["schema"], dict) else None
                if fmt not in ("ipv4", "ip-address", "ipv6", "date"):
                    continue
                for t in g["tests"]:
                    if not isinstance(t["data"], str):
                        continue
                    n += 1
                    if RECOGNISERS[fmt](t["data"]) != t["valid"]:
                        bad.append((d, fmt, t["data"], t["valid"]))
    return n, bad
