"""Per-worker context handed to a property module's run(ctx)."""
import collections
import random
import time

from vf.util import h64, jdump


class Stop(Exception):
    """Raised by ctx when the violation cap is reached (enough witnesses)."""


class Ctx:
    MAX_VIOL = 40
    MAX_SAMPLES = 6

    def __init__(self, prop, tier, seed, shard, nshards, replay=None):
        self.prop = prop
        self.tier = tier
        self.seed = seed
        self.shard = shard
        self.nshards = nshards
        self.rng = random.Random(seed * 1000 + shard)
        self.counters = collections.Counter()
        self.samples = []
        self.violations = []
        self.hashes = set()
        self.evaluations = 0
        self.t0 = time.time()
        self.replay = replay
        self.notes = {}
        self._viol_keys = collections.Counter()

    @property
    def quick(self):
        return self.tier == "quick"

    def mine(self, index):
        """Deterministic-core partitioning: does item `index` belong to this shard?"""
        return index % self.nshards == self.shard

    def scale(self, quick_n, thorough_n):
        return quick_n if self.tier == "quick" else thorough_n

    def case(self, case, nontrivial=True, n=1):
        """Count one explored case; `case` is hashed for distinctness."""
        self.evaluations += n
        if nontrivial:
            self.hashes.add(h64(case))
        if len(self.samples) < self.MAX_SAMPLES and nontrivial and self.rng.random() < 0.02:
            self.samples.append(_trim(case))

    def sample(self, case):
        if len(self.samples) < self.MAX_SAMPLES:
            self.samples.append(_trim(case))

    def count(self, key, n=1):
        self.counters[key] += n

    def violation(self, kind, case, detail="", mech=None):
        """Record a violation.  `mech` is the mechanism key computed by the
        property's classifier (None = unclassified)."""
        self.counters["violations_seen"] += 1
        k = (kind, mech)
        self._viol_keys[k] += 1
        # keep the first few witnesses of every (kind, mech) bucket
        if self._viol_keys[k] <= 3 and len(self.violations) < self.MAX_VIOL:
            self.violations.append({
                "kind": kind, "mech": mech, "detail": str(detail)[:2000], "case": case,
            })

    def result(self):
        return {
            "prop": self.prop, "tier": self.tier, "seed": self.seed, "shard": self.shard,
            "evaluations": self.evaluations,
            "counters": dict(self.counters),
            "samples": self.samples,
            "violations": self.violations,
            "viol_buckets": [[k[0], k[1], n] for k, n in self._viol_keys.items()],
            "hashes": sorted(self.hashes),
            "notes": self.notes,
            "wall_s": time.time() - self.t0,
        }


def _trim(case, limit=1500):
    s = jdump(case)
    if len(s) <= limit:
        return case
    return {"truncated": s[:limit]}
