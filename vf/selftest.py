"""Oracle calibration: the model M, the regex matcher, the URI code and the
format recognisers are run against the official JSON-Schema-Test-Suite copy
bundled in the repository and against RFC examples.  A miss makes the
dependent checks inconclusive, never violated."""
import glob
import json
import os
import re
import sys

from vf import util
from vf.model import eval as M
from vf.model import regex as rx
from vf.model import uri as U

SKIP_FILES = {"format.json", "content.json", "ecmascript-regex.json"}


def suite_dir():
    return os.path.join(util.repo_dir(), "json")


def remotes():
    base = os.path.join(suite_dir(), "remotes")
    store = {}
    for root, _dirs, files in os.walk(base):
        for fn in files:
            if fn.endswith(".json"):
                p = os.path.join(root, fn)
                rel = os.path.relpath(p, base).replace(os.sep, "/")
                with open(p) as f:
                    store["http://localhost:1234/" + rel] = json.load(f)
    return store


def metaschemas():
    out = {}
    for d in (3, 4, 6, 7):
        p = os.path.join(util.repo_dir(), "jsonschema", "schemas", "draft%d.json" % d)
        with open(p) as f:
            out[d] = json.load(f)
    return out


def meta_store():
    st = {}
    for d, ms in metaschemas().items():
        st["http://json-schema.org/draft-0%d/schema" % d] = ms
    return st


def calibrate_model(verbose=False):
    """Returns (checked, mismatches, skipped)."""
    store = dict(meta_store())
    store.update(remotes())
    checked = 0
    skipped = 0
    bad = []
    for d in (3, 4, 6, 7):
        files = sorted(glob.glob(os.path.join(suite_dir(), "tests", "draft%d" % d, "*.json")))
        files += sorted(glob.glob(os.path.join(suite_dir(), "tests", "draft%d" % d, "optional", "*.json")))
        for fn in files:
            if os.path.basename(fn) in SKIP_FILES:
                continue
            if d <= 4 and os.path.basename(fn) == "float-overflow.json":
                continue   # conflicts with zeroTerminatedFloats (1e308 is not a draft-4 integer here)
            with open(fn) as f:
                groups = json.load(f)
            for g in groups:
                for t in g["tests"]:
                    try:
                        got = M.Model(d, g["schema"], store=store).valid(t["data"])
                    except M.OutOfDomain as e:
                        skipped += 1
                        if verbose:
                            print("skip", d, os.path.basename(fn), g["description"], "|", t["description"], e)
                        continue
                    checked += 1
                    if got != t["valid"]:
                        bad.append((d, os.path.basename(fn), g["description"], t["description"], t["valid"], got))
    return checked, bad, skipped


def calibrate_regex(n=4000, seed=7):
    import random
    from vf.gen.pools import PATTERNS
    rng = random.Random(seed)
    bad = []
    alphabet = "ab1c é\U0001d11e.^$|-"
    for _ in range(n):
        p = rng.choice(PATTERNS)
        s = "".join(rng.choice(alphabet) for _ in range(rng.randrange(0, 6)))
        want = re.search(p, s) is not None
        got = rx.search(p, s)
        if want != got:
            bad.append((p, s, want, got))
    return n, bad


RFC3986_BASE = "http://a/b/c/d;p?q"
RFC3986_EXAMPLES = {
    "g:h": "g:h", "g": "http://a/b/c/g", "./g": "http://a/b/c/g", "g/": "http://a/b/c/g/",
    "/g": "http://a/g", "//g": "http://g", "?y": "http://a/b/c/d;p?y", "g?y": "http://a/b/c/g?y",
    "#s": "http://a/b/c/d;p?q#s", "g#s": "http://a/b/c/g#s", "g?y#s": "http://a/b/c/g?y#s",
    ";x": "http://a/b/c/;x", "g;x": "http://a/b/c/g;x", "g;x?y#s": "http://a/b/c/g;x?y#s",
    "": "http://a/b/c/d;p?q", ".": "http://a/b/c/", "./": "http://a/b/c/", "..": "http://a/b/",
    "../": "http://a/b/", "../g": "http://a/b/g", "../..": "http://a/", "../../": "http://a/",
    "../../g": "http://a/g", "../../../g": "http://a/g", "../../../../g": "http://a/g",
    "/./g": "http://a/g", "/../g": "http://a/g", "g.": "http://a/b/c/g.", ".g": "http://a/b/c/.g",
    "g..": "http://a/b/c/g..", "..g": "http://a/b/c/..g", "./../g": "http://a/b/g",
    "./g/.": "http://a/b/c/g/", "g/./h": "http://a/b/c/g/h", "g/../h": "http://a/b/c/h",
    "g;x=1/./y": "http://a/b/c/g;x=1/y", "g;x=1/../y": "http://a/b/c/y",
    "g?y/./x": "http://a/b/c/g?y/./x", "g?y/../x": "http://a/b/c/g?y/../x",
    "g#s/./x": "http://a/b/c/g#s/./x", "g#s/../x": "http://a/b/c/g#s/../x",
}

RFC6901_DOC = {"foo": ["bar", "baz"], "": 0, "a/b": 1, "c%d": 2, "e^f": 3, "g|h": 4, "i\\j": 5,
               "k\"l": 6, " ": 7, "m~n": 8}
RFC6901_FRAGS = {"": RFC6901_DOC, "/foo": ["bar", "baz"], "/foo/0": "bar", "/": 0, "/a~1b": 1,
                 "/c%25d": 2, "/e%5Ef": 3, "/g%7Ch": 4, "/i%5Cj": 5, "/k%22l": 6, "/%20": 7, "/m~0n": 8}


def calibrate_uri():
    bad = []
    for ref, want in RFC3986_EXAMPLES.items():
        got = U.resolve(RFC3986_BASE, ref)
        if got != want:
            bad.append((ref, want, got))
    for frag, want in RFC6901_FRAGS.items():
        got = U.ptr_walk(RFC6901_DOC, frag)
        if got != want:
            bad.append((frag, want, got))
    # encoder round trip
    for key in RFC6901_DOC:
        frag = U.fragment_for([key])
        if U.ptr_walk(RFC6901_DOC, frag) != RFC6901_DOC[key]:
            bad.append(("roundtrip", key, frag))
    return len(RFC3986_EXAMPLES) + len(RFC6901_FRAGS) + len(RFC6901_DOC), bad


def main():
    util.assert_repo_module() if False else None
    rc = 0
    c, bad, sk = calibrate_model(verbose="-v" in sys.argv)
    print("model: %d suite cases reproduced, %d skipped (out of domain), %d mismatches" % (c - len(bad), sk, len(bad)))
    for b in bad[:40]:
        print("  MISMATCH", b)
        rc = 2
    n, bad = calibrate_regex()
    print("regex: %d comparisons with Python re on the subset, %d mismatches" % (n, len(bad)))
    for b in bad[:10]:
        print("  MISMATCH", b)
        rc = 2
    n, bad = calibrate_uri()
    print("uri: %d RFC 3986/6901 examples, %d mismatches" % (n, len(bad)))
    for b in bad[:10]:
        print("  MISMATCH", b)
        rc = 2
    try:
        from vf.model import formats
        n, bad = formats.calibrate()
        print("formats: %d suite strings, %d mismatches" % (n, len(bad)))
        for b in bad[:10]:
            print("  MISMATCH", b)
            rc = 2
    except ImportError:
        pass
    return rc


if __name__ == "__main__":
    sys.exit(main())
