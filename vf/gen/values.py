"""G-json: JSON values incl. hostile numbers and strings."""
from vf.gen.pools import PROP_NAMES, STRINGS

INTS_SMALL = [0, 1, -1, 2, 3, 4, 5, 10]
INTS_BIG = [2 ** 53 - 1, 2 ** 53, 2 ** 53 + 1, -(2 ** 53) - 1, 10 ** 20, -(10 ** 20), 10 ** 400, -(10 ** 400),
            2 ** 1024, 10 ** 3999]
FLOATS = [0.0, -0.0, 0.5, 1.0, 1.5, 2.0, -1.0, 2.5, 0.25, 0.1, 3.0, float(2 ** 53), 1e308, -1e308, 5e-324,
          1e-7, 4.0, 1e20, 0.75, 1e-17, 0.9999999999999999, 1.0000000000000002, -1e-300, 2.9999999999999996,
          4503599627370496.5, 1e22]


def number(rng, hostile=0.15):
    r = rng.random()
    if r < hostile / 2:
        return rng.choice(INTS_BIG)
    if r < hostile:
        return rng.choice(FLOATS[11:])
    if r < 0.55:
        return rng.choice(INTS_SMALL)
    return rng.choice(FLOATS[:11] + [4.0, 0.75])


def string(rng):
    if rng.random() < 0.85:
        return rng.choice(STRINGS)
    n = rng.randrange(0, 7)
    return "".join(rng.choice("ab1fo é\U0001d11e") for _ in range(n))


def scalar(rng, hostile=0.15):
    r = rng.random()
    if r < 0.08:
        return None
    if r < 0.2:
        return rng.random() < 0.5
    if r < 0.6:
        return number(rng, hostile)
    return string(rng)


def value(rng, depth=2, hostile=0.15, keys=PROP_NAMES):
    r = rng.random()
    if depth <= 0 or r < 0.5:
        return scalar(rng, hostile)
    if r < 0.75:
        return [value(rng, depth - 1, hostile, keys) for _ in range(rng.randrange(0, 4))]
    out = {}
    for _ in range(rng.randrange(0, 4)):
        out[rng.choice(keys)] = value(rng, depth - 1, hostile, keys)
    return out


def of_type(rng, t, depth=2, keys=PROP_NAMES):
    if t == "null":
        return None
    if t == "boolean":
        return rng.random() < 0.5
    if t == "integer":
        return rng.choice(INTS_SMALL) if rng.random() < 0.85 else rng.choice(INTS_BIG)
    if t == "number":
        return number(rng)
    if t == "string":
        return string(rng)
    if t == "array":
        return [value(rng, depth - 1, keys=keys) for _ in range(rng.randrange(0, 4))]
    if t == "object":
        out = {}
        for _ in range(rng.randrange(0, 4)):
            out[rng.choice(keys)] = value(rng, depth - 1, keys=keys)
        return out
    return value(rng, depth, keys=keys)


TYPE_REPS = {
    "null": [None],
    "boolean": [True, False],
    "integer": [0, 1, 2, -1, 3, 10 ** 20],
    "number": [0.5, 1.0, 2.0, 1.5, -0.0, 1e308, 5e-324, 1e-17, 0.9999999999999999, 1.0000000000000002, -1e-300],
    "string": ["", "a", "ab", "foo", "b1", "\U0001d11e"],
    "array": [[], [1], [1, 2], ["a", "b", "a"], [1, 1], [[], {}], [1, "a", None], [True, 1]],
    "object": [{}, {"a": 1}, {"a": 1, "b": 2}, {"foo": "a", "ab": []}, {"": None}, {"b1": 1, "a": "a", "b": 2.0}],
}

ALL_REPS = [v for t in ("null", "boolean", "integer", "number", "string", "array", "object") for v in TYPE_REPS[t]]


# ---------------------------------------------------------------------- the same JSON value in other container classes

class ListSubclass(list):
    """What e.g. a YAML/TOML loader or an ORM hands over: a list in every respect."""


def exotic(x, kind):
    """The JSON value x rebuilt (recursively, freshly on every call) with containers that are `dict` / `list`
    instances but behave differently off the beaten path:
      "defaultdict"      - collections.defaultdict(dict): looking an absent member up with [] INSERTS it
      "ordered-reversed" - collections.OrderedDict with the members in reverse order: == between two OrderedDicts is
                           order-sensitive, although they are the same JSON object
      "ordered"          - collections.OrderedDict in the original order
      "list-subclass"    - lists as instances of a list subclass
    Every result is equal (==) to x as far as plain dict/list comparison goes and denotes the same JSON value."""
    import collections
    if isinstance(x, dict):
        items = [(k, exotic(v, kind)) for k, v in x.items()]
        if kind == "defaultdict":
            out = collections.defaultdict(dict)
            out.update(items)
            return out
        if kind == "ordered-reversed":
            return collections.OrderedDict(reversed(items))
        if kind == "ordered":
            return collections.OrderedDict(items)
        return dict(items)
    if isinstance(x, list):
        items = [exotic(v, kind) for v in x]
        return ListSubclass(items) if kind == "list-subclass" else items
    return x


EXOTIC_KINDS = ("defaultdict", "ordered-reversed", "ordered", "list-subclass")
