"""G-schema[d]: grammar-based schema generator per draft.

The vocabulary tables are written down from the specifications, not read
from the implementation.  Values are well-formed by construction; callers
additionally gate with check_schema and count rejections.
"""
from vf.gen import values as V
from vf.gen.pools import PATTERNS, PROP_NAMES

SIMPLE_TYPES = ["array", "boolean", "integer", "null", "number", "object", "string"]

ASSERTIONS = {
    3: ["type", "disallow", "enum", "minimum", "maximum", "divisibleBy", "minLength", "maxLength", "pattern",
        "minItems", "maxItems", "uniqueItems"],
    4: ["type", "enum", "minimum", "maximum", "multipleOf", "minLength", "maxLength", "pattern", "minItems",
        "maxItems", "uniqueItems", "required", "minProperties", "maxProperties"],
}
ASSERTIONS[6] = ASSERTIONS[4] + ["const", "exclusiveMinimum", "exclusiveMaximum"]
ASSERTIONS[7] = ASSERTIONS[6]

APPLICATORS = {
    3: ["properties", "patternProperties", "additionalProperties", "items", "additionalItems", "dependencies",
        "extends", "type_schema", "disallow_schema"],
    4: ["properties", "patternProperties", "additionalProperties", "items", "additionalItems", "dependencies",
        "allOf", "anyOf", "oneOf", "not"],
}
APPLICATORS[6] = APPLICATORS[4] + ["contains", "propertyNames"]
APPLICATORS[7] = APPLICATORS[6] + ["if", "then", "else"]

# every validation keyword of each draft (used for coverage floors / pair enumeration)
VOCAB = {
    3: ["type", "disallow", "extends", "enum", "minimum", "maximum", "exclusiveMinimum", "exclusiveMaximum",
        "divisibleBy", "minLength", "maxLength", "pattern", "items", "additionalItems", "minItems", "maxItems",
        "uniqueItems", "properties", "patternProperties", "additionalProperties", "dependencies"],
    4: ["type", "enum", "allOf", "anyOf", "oneOf", "not", "minimum", "maximum", "exclusiveMinimum",
        "exclusiveMaximum", "multipleOf", "minLength", "maxLength", "pattern", "items", "additionalItems",
        "minItems", "maxItems", "uniqueItems", "properties", "patternProperties", "additionalProperties",
        "required", "dependencies", "minProperties", "maxProperties"],
}
VOCAB[6] = VOCAB[4] + ["const", "contains", "propertyNames"]
VOCAB[7] = VOCAB[6] + ["if", "then", "else"]

BOUNDS = [0, 1, 2, 3, -1, 0.5, 1.5, 2.0, 2.5, 10 ** 20, 2 ** 53, float(2 ** 53), 1e308, -0.0]
DIVISORS = [1, 2, 3, 0.5, 0.25, 2.0, 1.5, 4, 10, 0.75, 10 ** 20]
COUNTS = [0, 1, 2, 3]


class SchemaGen:
    def __init__(self, rng, draft, maxdepth=3, maxkw=5, patterns=PATTERNS, names=PROP_NAMES,
                 p_bool=0.12, hostile=True):
        self.rng = rng
        self.d = draft
        self.maxdepth = maxdepth
        self.maxkw = maxkw
        self.patterns = patterns
        self.names = names
        self.p_bool = p_bool
        self.hostile = hostile

    # ------------------------------------------------------------------
    def schema(self, depth=0, in_property=False):
        rng = self.rng
        if self.d >= 6 and depth > 0 and rng.random() < self.p_bool:
            return rng.random() < 0.6
        if depth >= self.maxdepth:
            nk = rng.randrange(0, 3)
            pool = ASSERTIONS[self.d]
        else:
            nk = rng.randrange(1, self.maxkw + 1)
            pool = None
        out = {}
        for _ in range(nk):
            if pool is None:
                if rng.random() < 0.5:
                    kw = rng.choice(APPLICATORS[self.d])
                else:
                    kw = rng.choice(ASSERTIONS[self.d])
            else:
                kw = rng.choice(pool)
            self.add(out, kw, depth)
        if self.d == 3 and in_property and rng.random() < 0.35:
            out["required"] = rng.random() < 0.7
        if rng.random() < 0.5:
            items = list(out.items())
            rng.shuffle(items)
            out = dict(items)
        return out

    def sub(self, depth, in_property=False):
        return self.schema(depth + 1, in_property=in_property)

    def subs(self, depth, lo=1, hi=3):
        return [self.sub(depth) for _ in range(self.rng.randrange(lo, hi + 1))]

    # ------------------------------------------------------------------
    def add(self, out, kw, depth):
        rng = self.rng
        d = self.d
        if kw == "type_schema":
            ts = []
            for _ in range(rng.randrange(1, 4)):
                ts.append(self.sub(depth) if rng.random() < 0.6 else rng.choice(SIMPLE_TYPES + ["any"]))
            out["type"] = _uniq(ts)
        elif kw == "disallow_schema":
            ts = []
            for _ in range(rng.randrange(1, 3)):
                ts.append(self.sub(depth) if rng.random() < 0.6 else rng.choice(SIMPLE_TYPES))
            out["disallow"] = _uniq(ts)
        elif kw == "type":
            types = SIMPLE_TYPES + (["any"] if d == 3 else [])
            if rng.random() < 0.6:
                out["type"] = rng.choice(types)
            else:
                k = rng.randrange(1, 4)
                out["type"] = rng.sample(types, k)
        elif kw == "disallow":
            if rng.random() < 0.5:
                out["disallow"] = rng.choice(SIMPLE_TYPES)
            else:
                out["disallow"] = rng.sample(SIMPLE_TYPES + ["any"], rng.randrange(1, 3))
        elif kw == "extends":
            out["extends"] = self.sub(depth) if rng.random() < 0.3 else self.subs(depth, 1, 4)
        elif kw == "enum":
            n = rng.randrange(1, 5) if d <= 4 else rng.randrange(0, 5)
            vals = [V.value(rng, 2, hostile=0.05) for _ in range(n)]
            out["enum"] = vals
        elif kw == "const":
            out["const"] = V.value(rng, 2, hostile=0.05)
        elif kw in ("minimum", "maximum"):
            out[kw] = rng.choice(BOUNDS)
            if d <= 4 and rng.random() < 0.4:
                out["exclusive" + kw.capitalize()] = rng.random() < 0.7
        elif kw in ("exclusiveMinimum", "exclusiveMaximum"):
            out[kw] = rng.choice(BOUNDS)
        elif kw in ("multipleOf", "divisibleBy"):
            out["divisibleBy" if d == 3 else "multipleOf"] = rng.choice(DIVISORS)
        elif kw in ("minLength", "maxLength", "minItems", "maxItems", "minProperties", "maxProperties"):
            c = rng.choice(COUNTS)
            if d >= 6 and rng.random() < 0.1:
                c = float(c)
            out[kw] = c
        elif kw == "pattern":
            out["pattern"] = rng.choice(self.patterns)
        elif kw == "uniqueItems":
            out["uniqueItems"] = rng.random() < 0.8
        elif kw == "required":
            lo = 1 if d == 4 else 0
            out["required"] = rng.sample(self.names, rng.randrange(lo, 4))
        elif kw == "properties":
            out["properties"] = {n: self.sub(depth, in_property=True)
                                 for n in rng.sample(self.names, rng.randrange(0, 4))}
        elif kw == "patternProperties":
            out["patternProperties"] = {p: self.sub(depth)
                                        for p in rng.sample(self.patterns, rng.randrange(0, 3))}
        elif kw == "additionalProperties":
            out["additionalProperties"] = self._bool_or_schema(depth)
            if "patternProperties" not in out and rng.random() < 0.6:
                self.add(out, "patternProperties", depth)
            if "properties" not in out and rng.random() < 0.5:
                self.add(out, "properties", depth)
        elif kw == "items":
            r = rng.random()
            if r < 0.5:
                out["items"] = self.sub(depth)
            else:
                lo = 0 if d == 3 else 1
                out["items"] = self.subs(depth, lo, 3) if lo else (
                    [] if rng.random() < 0.1 else self.subs(depth, 1, 3))
        elif kw == "additionalItems":
            out["additionalItems"] = self._bool_or_schema(depth)
            if "items" not in out and rng.random() < 0.8:
                out["items"] = self.subs(depth, 1, 3)
        elif kw == "dependencies":
            deps = {}
            for n in rng.sample(self.names, rng.randrange(0, 3)):
                r = rng.random()
                if r < 0.45:
                    deps[n] = self.sub(depth)
                elif r < 0.6 and d == 3:
                    deps[n] = rng.choice(self.names)
                else:
                    lo = 1 if d == 4 else 0
                    deps[n] = rng.sample(self.names, rng.randrange(lo, 3))
            out["dependencies"] = deps
        elif kw in ("allOf", "anyOf", "oneOf"):
            out[kw] = self.subs(depth, 1, 4)
        elif kw in ("not", "contains", "propertyNames", "if", "then", "else"):
            out[kw] = self.sub(depth)
            if kw == "if":
                if rng.random() < 0.7:
                    out["then"] = self.sub(depth)
                if rng.random() < 0.6:
                    out["else"] = self.sub(depth)
        else:
            raise AssertionError(kw)

    def _bool_or_schema(self, depth):
        r = self.rng.random()
        if r < 0.4:
            return False
        if r < 0.5:
            return True
        s = self.sub(depth)
        if self.d <= 4 and isinstance(s, bool):
            return {}
        return s

    # ------------------------------------------------------------------
    def keyword_schema(self, kw, depth=1):
        """A schema object guaranteed to contain `kw` (plus what it consults)."""
        out = {}
        name = kw
        if kw in ("exclusiveMinimum", "exclusiveMaximum") and self.d <= 4:
            base = "minimum" if kw.endswith("Minimum") else "maximum"
            out[base] = self.rng.choice(BOUNDS)
            out[kw] = True
            return out
        if kw in ("then", "else"):
            out["if"] = self.sub(depth)
            out[kw] = self.sub(depth)
            return out
        self.add(out, name, depth)
        if kw == "type" and self.d == 3 and self.rng.random() < 0.3:
            out = {}
            self.add(out, "type_schema", depth)
        return out


def _uniq(xs):
    out = []
    for x in xs:
        if not any(type(x) is type(y) and x == y for y in out):
            out.append(x)
    return out


def walk_subschemas(draft, schema, path=()):
    """Yield (path, subschema) for every schema position, from the spec's
    keyword shapes (schema / list of schemas / map of schemas)."""
    yield path, schema
    if not isinstance(schema, dict):
        return
    for k, v in schema.items():
        shape = SHAPES[draft].get(k)
        if shape is None:
            continue
        for p, s in _children(k, v, shape):
            yield from walk_subschemas(draft, s, path + p)


def _children(k, v, shape):
    if shape == "schema":
        if isinstance(v, (dict, bool)):
            yield (k,), v
    elif shape == "list":
        if isinstance(v, list):
            for i, s in enumerate(v):
                if isinstance(s, (dict, bool)):
                    yield (k, i), s
    elif shape == "map":
        if isinstance(v, dict):
            for n, s in v.items():
                if isinstance(s, (dict, bool)):
                    yield (k, n), s
    elif shape == "schema_or_list":
        if isinstance(v, list):
            yield from _children(k, v, "list")
        else:
            yield from _children(k, v, "schema")
    elif shape == "map_schema_or_data":      # dependencies
        if isinstance(v, dict):
            for n, s in v.items():
                if isinstance(s, (dict, bool)):
                    yield (k, n), s
    elif shape == "bool_or_schema":
        if isinstance(v, dict) or (isinstance(v, bool) and False):
            yield (k,), v
    elif shape == "list_str_or_schema":       # draft 3 type / disallow
        if isinstance(v, list):
            for i, s in enumerate(v):
                if isinstance(s, dict):
                    yield (k, i), s


SHAPES = {
    3: {"properties": "map", "patternProperties": "map", "additionalProperties": "bool_or_schema",
        "items": "schema_or_list", "additionalItems": "bool_or_schema", "dependencies": "map_schema_or_data",
        "extends": "schema_or_list", "type": "list_str_or_schema", "disallow": "list_str_or_schema"},
    4: {"properties": "map", "patternProperties": "map", "additionalProperties": "bool_or_schema",
        "items": "schema_or_list", "additionalItems": "bool_or_schema", "dependencies": "map_schema_or_data",
        "allOf": "list", "anyOf": "list", "oneOf": "list", "not": "schema", "definitions": "map"},
}
SHAPES[6] = dict(SHAPES[4], additionalProperties="schema", additionalItems="schema",
                 contains="schema", propertyNames="schema")
SHAPES[7] = dict(SHAPES[6], **{"if": "schema", "then": "schema", "else": "schema"})
SHAPES[3]["definitions"] = "map"
