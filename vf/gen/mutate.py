"""G-mutate: shape mutations of schemas (for invalid-schema workloads, C04/C11)."""
from vf.gen.schema import walk_subschemas

WRONG = [None, True, False, 0, 1, -1, 1.5, "", "a", "x y", [], [1], ["a"], ["a", "a"], [{}], [[]], {}, {"a": 1},
         {"a": {}}, {"a": []}, {"a": "b"}, [{"type": "nope"}], {"type": 5}, 10 ** 20, -0.5, 0.0, ["string", "string"],
         ["string", 5], "nope", [None], {"$ref": 5}, {"": None}, 10 ** 400, -(10 ** 400), 2 ** 1024, 1e308, 5e-324, 2.0, -1.0]


def get_at(schema, path):
    cur = schema
    for p in path:
        cur = cur[p]
    return cur


def set_at(schema, path, value):
    """Returns a copy of `schema` with the node at `path` replaced (copy-on-path)."""
    if not path:
        return value
    p = path[0]
    if isinstance(schema, dict):
        out = dict(schema)
        out[p] = set_at(schema[p], path[1:], value)
        return out
    out = list(schema)
    out[p] = set_at(schema[p], path[1:], value)
    return out


def mutate_schema(rng, draft, schema, n=1, extra_keywords=()):
    """Replace the value of n randomly chosen keywords (at any depth) by a
    value of another JSON shape.  Returns (mutated, [(path, keyword)])."""
    where = []
    cur = schema
    for _ in range(n):
        subs = [(p, s) for p, s in walk_subschemas(draft, cur) if isinstance(s, dict)]
        if not subs:
            return rng.choice(WRONG), [((), None)]
        path, sub = rng.choice(subs)
        keys = list(sub) + list(extra_keywords)
        if not keys:
            kw = rng.choice(["type", "properties", "items", "required", "enum", "minimum", "maxLength"])
        else:
            kw = rng.choice(keys)
        new = dict(sub)
        new[kw] = rng.choice(WRONG)
        cur = set_at(cur, list(path), new)
        where.append((list(path), kw))
    return cur, where
