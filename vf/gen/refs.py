"""G-refs: the extraction transform and reference arrangements (C02 and users).

transform(rng, draft, S0, ...) -> Arrangement(schema S, store, handlers-docs, info)
where S0 is reference-free and S is S0 with randomly chosen subschemas moved
to definitions / array slots / store documents / handler-served documents
and references (possibly chained, with sibling keywords) left in their place.
By construction S0 is "S with each reference replaced by the schema it
designates".
"""
from vf.gen.mutate import get_at, set_at
from vf.gen.schema import walk_subschemas
from vf.model import uri as U

HOSTILE_NAMES = ["", "~", "/", "~1", "~01", "~0", "%", "%25", "a b", "#", "?", "\"", "\\", "é", "\U0001d11e", "0", "01",
                 "-1", "$ref", "definitions", "a/b~c%d", "x", "d1", "items", "+", "%41"]

IDKW = {3: "id", 4: "id", 6: "$id", 7: "$id"}


class Arrangement:
    def __init__(self, draft, schema, s0, store=None, handler_docs=None, info=None):
        self.draft = draft
        self.schema = schema
        self.s0 = s0
        self.store = store or {}
        self.handler_docs = handler_docs or {}
        self.info = info or {}

    def as_case(self):
        return {"draft": self.draft, "schema": self.schema, "s0": self.s0, "store": self.store,
                "handler_docs": self.handler_docs, "info": self.info}


def extractable_positions(draft, schema):
    """Schema positions (paths) whose subschema may be moved behind a reference."""
    out = []
    for path, sub in walk_subschemas(draft, schema):
        if not path:
            continue
        if not isinstance(sub, (dict, bool)):
            continue
        if isinstance(sub, bool) and draft <= 4:
            continue
        if path[0] == "definitions":
            continue
        # Draft 3: `required` inside a property subschema is read lexically by the parent
        if draft == 3 and isinstance(sub, dict) and "required" in sub:
            continue
        out.append(path)
    return out


def _frag(rng, tokens):
    style = rng.random()
    if style < 0.5:
        return U.fragment_for(tokens)
    if style < 0.75:
        return U.fragment_for(tokens, non_ascii_raw=True)
    return U.fragment_for(tokens, extra=set(rng.sample("abdefinitos01-._~", 3)))


def transform_local(rng, draft, s0, max_refs=3, names=None, siblings=True, chain=0.3):
    """Move up to max_refs subschemas of S0 (a dict) into `definitions` (or an
    array slot under an unknown keyword) of the same document."""
    if not isinstance(s0, dict):
        return Arrangement(draft, s0, s0, info={"refs": 0})
    names = names or HOSTILE_NAMES
    S = s0
    defs = {}
    slots = []
    nrefs = 0
    chains = 0
    used = set()
    for _ in range(rng.randrange(1, max_refs + 1)):
        pos = extractable_positions(draft, S)
        pos = [p for p in pos if not _inside_ref_object(S, p)]
        if not pos:
            break
        path = rng.choice(pos)
        sub = get_at(S, path)
        name = rng.choice([n for n in names if n not in used] or ["n%d" % len(used)])
        used.add(name)
        if rng.random() < 0.8:
            defs[name] = sub
            tokens = ["definitions", name]
        else:
            slots.append(sub)
            tokens = ["x-slots", str(len(slots) - 1)]
        ref = {"$ref": "#" + _frag(rng, tokens)}
        if rng.random() < chain:
            # chain: the reference designates another reference object
            name2 = rng.choice([n for n in names if n not in used] or ["c%d" % len(used)])
            used.add(name2)
            defs[name2] = ref
            ref = {"$ref": "#" + _frag(rng, ["definitions", name2])}
            chains += 1
        if siblings and rng.random() < 0.4:
            # keywords written next to $ref are ignored
            ref = dict(ref)
            ref[rng.choice(["type", "minimum", "enum", "title", "not" if draft >= 4 else "disallow", "maxLength"])] = \
                rng.choice(["null", 10 ** 6, [], "t", {}, 0])
            if rng.random() < 0.5:
                ref = dict(reversed(list(ref.items())))
        S = set_at(S, list(path), ref)
        nrefs += 1
    if not nrefs:
        return Arrangement(draft, s0, s0, info={"refs": 0})
    S = dict(S)
    if defs:
        S["definitions"] = dict(S.get("definitions", {}), **defs) if isinstance(S.get("definitions"), dict) else defs
    if slots:
        S["x-slots"] = slots
    return Arrangement(draft, S, s0, info={"refs": nrefs, "chains": chains, "names": sorted(used), "kind": "local"})


def _inside_ref_object(S, path):
    cur = S
    for p in path:
        if isinstance(cur, dict) and isinstance(cur.get("$ref"), str):
            return True
        cur = cur[p]
    return False


def ref_positions(schema, path=()):
    """Paths of all reference objects in a schema document."""
    out = []
    if isinstance(schema, dict):
        if isinstance(schema.get("$ref"), str):
            out.append(path)
        for k, v in schema.items():
            out.extend(ref_positions(v, path + (k,)))
    elif isinstance(schema, list):
        for i, v in enumerate(schema):
            out.extend(ref_positions(v, path + (i,)))
    return out
