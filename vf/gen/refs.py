"""G-refs: the extraction transform and reference arrangements (C02 and users).

transform(rng, draft, S0, ...) -> Arrangement(schema S, store, handlers-docs, info)
where S0 is reference-free and S is S0 with randomly chosen subschemas moved
to definitions / array slots / store documents / handler-served documents
and references (possibly chained, with sibling keywords) left in their place.
By construction S0 is "S with each reference replaced by the schema it
designates".
"""
from vf.gen.mutate import get_at, set_at
from vf.gen.schema import walk_subschemas
from vf.model import uri as U

HOSTILE_NAMES = ["", "~", "/", "~1", "~01", "~0", "%", "%25", "a b", "#", "?", "\"", "\\", "é", "\U0001d11e", "0", "01",
                 "-1", "$ref", "definitions", "a/b~c%d", "x", "d1", "items", "+", "%41"]

IDKW = {3: "id", 4: "id", 6: "$id", 7: "$id"}


class Arrangement:
    def __init__(self, draft, schema, s0, store=None, handler_docs=None, info=None):
        self.draft = draft
        self.schema = schema
        self.s0 = s0
        self.store = store or {}
        self.handler_docs = handler_docs or {}
        self.info = info or {}

    def as_case(self):
        return {"draft": self.draft, "schema": self.schema, "s0": self.s0, "store": self.store,
                "handler_docs": self.handler_docs, "info": self.info}


def extractable_positions(draft, schema):
    """Schema positions (paths) whose subschema may be moved behind a reference."""
    out = []
    for path, sub in walk_subschemas(draft, schema):
        if not path:
            continue
        if not isinstance(sub, (dict, bool)):
            continue
        if isinstance(sub, bool) and draft <= 4:
            continue
        # the literal boolean form of additionalProperties / additionalItems is reported at the
        # container (one error), a schema at each member: not a difference caused by $ref
        if isinstance(sub, bool) and path[-1] in ("additionalProperties", "additionalItems"):
            continue
        if path[0] == "definitions":
            continue
        # Draft 3: `required` inside a property subschema is read lexically by the parent
        if draft == 3 and isinstance(sub, dict) and "required" in sub:
            continue
        out.append(path)
    return out


def _frag(rng, tokens):
    style = rng.random()
    if style < 0.5:
        return U.fragment_for(tokens)
    if style < 0.75:
        return U.fragment_for(tokens, non_ascii_raw=True)
    return U.fragment_for(tokens, extra=set(rng.sample("abdefinitos01-._~", 3)))


def transform_local(rng, draft, s0, max_refs=3, names=None, siblings=True, chain=0.3):
    """Move up to max_refs subschemas of S0 (a dict) into `definitions` (or an
    array slot under an unknown keyword) of the same document."""
    if not isinstance(s0, dict):
        return Arrangement(draft, s0, s0, info={"refs": 0})
    names = names or HOSTILE_NAMES
    S = s0
    defs = {}
    slots = []
    nrefs = 0
    chains = 0
    used = set(s0.get("definitions", {})) if isinstance(s0.get("definitions"), dict) else set()
    for _ in range(rng.randrange(1, max_refs + 1)):
        pos = extractable_positions(draft, S)
        pos = [p for p in pos if not _inside_ref_object(S, p)]
        if not pos:
            break
        path = rng.choice(pos)
        sub = get_at(S, path)
        name = rng.choice([n for n in names if n not in used] or ["n%d" % len(used)])
        used.add(name)
        if rng.random() < 0.8:
            defs[name] = sub
            tokens = ["definitions", name]
        else:
            slots.append(sub)
            tokens = ["x-slots", str(len(slots) - 1)]
        ref = {"$ref": "#" + _frag(rng, tokens)}
        if rng.random() < chain:
            # chain: the reference designates another reference object
            name2 = rng.choice([n for n in names if n not in used] or ["c%d" % len(used)])
            used.add(name2)
            defs[name2] = ref
            ref = {"$ref": "#" + _frag(rng, ["definitions", name2])}
            chains += 1
        if siblings and rng.random() < 0.4:
            # keywords written next to $ref are ignored
            ref = dict(ref)
            ref[rng.choice(["type", "minimum", "enum", "title", "not" if draft >= 4 else "disallow", "maxLength"])] = \
                rng.choice(["null", 10 ** 6, [], "t", {}, 0])
            if rng.random() < 0.5:
                ref = dict(reversed(list(ref.items())))
        S = set_at(S, list(path), ref)
        nrefs += 1
    if not nrefs:
        return Arrangement(draft, s0, s0, info={"refs": 0})
    S = dict(S)
    if defs:
        S["definitions"] = dict(S.get("definitions", {}), **defs) if isinstance(S.get("definitions"), dict) else defs
    if slots:
        S["x-slots"] = slots
    return Arrangement(draft, S, s0, info={"refs": nrefs, "chains": chains, "names": sorted(used), "kind": "local"})


def _inside_ref_object(S, path):
    cur = S
    for p in path:
        if isinstance(cur, dict) and isinstance(cur.get("$ref"), str):
            return True
        cur = cur[p]
    return False


def ref_positions(schema, path=()):
    """Paths of all reference objects in a schema document."""
    out = []
    if isinstance(schema, dict):
        if isinstance(schema.get("$ref"), str):
            out.append(path)
        for k, v in schema.items():
            out.extend(ref_positions(v, path + (k,)))
    elif isinstance(schema, list):
        for i, v in enumerate(schema):
            out.extend(ref_positions(v, path + (i,)))
    return out


# ======================================================================
# inline(): own unfolding of references (independent of /repo), used as the
# construction self-check and as S0 for recursive templates.

class InlineError(Exception):
    pass


def inline(draft, S, docs=None, budget=12, base=""):
    """Return S with every reference object replaced by (the inlined form
    of) the schema it designates, following at most `budget` nested hops;
    beyond that the always-true schema {} is written.  `docs` maps absolute
    document URLs (no fragment) to documents.  Resolution uses
    vf/model/uri.py only."""
    idkw = IDKW[draft]
    docs = {U.norm_key(k): v for k, v in (docs or {}).items()}
    root_base = base
    if isinstance(S, dict) and isinstance(S.get(idkw), str) and S[idkw] and "$ref" not in S:
        root_base = U.resolve(base, S[idkw]) if base else S[idkw]
    docs.setdefault(U.norm_key(root_base), S)
    docs.setdefault(U.norm_key(base), S)

    def go(node, cur_base, left):
        if isinstance(node, list):
            return [go(x, cur_base, left) for x in node]
        if not isinstance(node, dict):
            return node
        if isinstance(node.get("$ref"), str):
            if left <= 0:
                return {}
            url = U.resolve(cur_base, node["$ref"]) if cur_base else node["$ref"]
            doc_url, frag = U.defrag(url)
            if doc_url not in docs:
                raise InlineError("no document %r" % doc_url)
            try:
                target = U.ptr_walk(docs[doc_url], frag)
            except U.PointerError as e:
                raise InlineError(str(e))
            return go(target, url, left - 1)
        sid = node.get(idkw)
        if isinstance(sid, str) and sid:
            cur_base = U.resolve(cur_base, sid) if cur_base else sid
        return {k: go(v, cur_base, left) for k, v in node.items()}

    return go(S, base, budget)


def strip_inert(draft, S):
    """Remove what the transform adds and the comparison ignores: definitions,
    x-slots, id keywords (inert without references)."""
    idkw = IDKW[draft]
    if isinstance(S, list):
        return [strip_inert(draft, x) for x in S]
    if isinstance(S, dict):
        return {k: strip_inert(draft, v) for k, v in S.items() if k not in ("definitions", "x-slots", idkw)}
    return S


# ======================================================================
# full arrangements

ROOT_URL = "http://root.example/dir/root.json"
STORE_DIR = "http://store.example/lib/"
HANDLER_DIR = "vf://handler.example/lib/"


def _bases(draft, S, root_base):
    """Map schema-position path -> base URI in effect *inside* the subschema
    at that path (own id applied).  Only schema positions are visited, so
    data that merely looks like an id (a property or dependency named "id")
    is never taken for one."""
    idkw = IDKW[draft]
    out = {}
    for path, node in walk_subschemas(draft, S):
        path = tuple(path)
        if not path:
            base = root_base
        else:
            q = path[:-1]
            while q not in out:
                q = q[:-1]
            base = out[q]
            if isinstance(node, dict):
                sid = node.get(idkw)
                if isinstance(sid, str) and sid and "$ref" not in node:
                    base = U.resolve(base, sid) if base else sid
        out[path] = base
    return out


def base_at(bases, path):
    """Base in effect at a reference object that stands at `path`: that of the
    closest enclosing schema position (a reference object's own id is ignored)."""
    q = tuple(path[:-1])
    while q not in bases:
        q = q[:-1]
    return bases[q]


def has_nested_id(draft, S):
    idkw = IDKW[draft]
    for path, node in walk_subschemas(draft, S):
        if path and isinstance(node, dict) and isinstance(node.get(idkw), str):
            return True
    return False


def _spell(rng, base, target):
    """A reference string that resolves (by our own resolver) from `base` to `target`."""
    cands = [target]
    tdoc, tfrag = U.defrag(target)
    bdoc, _ = U.defrag(base)
    if base and tdoc == bdoc and "#" in target:
        cands.append("#" + tfrag)
    if base.startswith("http://") and tdoc.startswith("http://"):
        bs = U.split(bdoc)
        ts = U.split(tdoc)
        if bs[1] == ts[1]:
            bdir = bs[2].rsplit("/", 1)[0] + "/"
            tpath = ts[2]
            suffix = ("#" + tfrag) if "#" in target else ""
            if tpath.startswith(bdir) and tpath != bdir:
                cands.append(tpath[len(bdir):] + suffix)
                cands.append("./" + tpath[len(bdir):] + suffix)
            cands.append(tpath + suffix)                 # absolute-path reference
            up = bdir.rstrip("/").rsplit("/", 1)[0] + "/"
            if up and tpath.startswith(up) and bdir != "/":
                cands.append("../" + tpath[len(up):] + suffix)
    ok = []
    for c in cands:
        if c == "":
            continue
        got = U.resolve(base, c) if base else c
        if got == target or (U.defrag(got)[0] == tdoc and U.defrag(got)[1] == tfrag):
            ok.append(c)
    return rng.choice(ok) if ok else target


def arrange(rng, draft, s0, mode=None):
    """Full extraction transform.  Returns an Arrangement or None."""
    if not isinstance(s0, dict):
        return None
    idkw = IDKW[draft]
    mode = mode or rng.choice(["noid", "rootid", "rootid", "rootid#", "nested"])
    S = dict(s0)
    S.pop("$ref", None)
    root_base = ""
    if mode != "noid":
        rid = ROOT_URL + ("#" if mode == "rootid#" else "")
        S = dict({idkw: rid}, **S)
        root_base = rid
    info = {"mode": mode, "refs": 0, "chains": 0, "placements": [], "spellings": [], "names": []}
    # nested ids on the evaluation path (only under an absolute root base)
    if mode == "nested":
        subs = [p for p, s in walk_subschemas(draft, S) if p and isinstance(s, dict) and p[0] != "definitions"
                and not (draft == 3 and "required" in s)]
        rng.shuffle(subs)
        for p in subs[:rng.randrange(1, 3)]:
            node = get_at(S, list(p))
            if idkw in node:
                continue
            nid = rng.choice(["http://store.example/lib/sub/", "sub/", "http://other.example/x/y.json", "sub/inner.json",
                              "../up.json", "http://store.example/lib/"])
            S = set_at(S, list(p), dict({idkw: nid}, **node))
            info.setdefault("nested_ids", []).append([list(p), nid])
    # the OTHER drafts' id keyword is not an id here: sprinkle it on the evaluation path (in S and in S0 alike)
    if rng.random() < 0.3:
        foreign = "$id" if idkw == "id" else "id"
        subs = [p for p, s in walk_subschemas(draft, S) if isinstance(s, dict) and (not p or p[0] != "definitions")
                and foreign not in s and "$ref" not in s]
        rng.shuffle(subs)
        for p in subs[:rng.randrange(1, 3)]:
            node = get_at(S, list(p)) if p else S
            new = dict(node)
            new[foreign] = rng.choice(["http://elsewhere.example/x/", "sub/", "http://store.example/lib/", "other.json", "#frag"])
            S = set_at(S, list(p), new) if p else new
            info["foreign_id_keywords"] = info.get("foreign_id_keywords", 0) + 1
    s0_with_ids = S
    store = {}
    handler_docs = {}
    defs = {}
    slots = []
    used = set()
    chosen = []
    for _ in range(rng.randrange(1, 5)):
        pos = extractable_positions(draft, S)
        pos = [p for p in pos if not any(p[:len(c)] == c or c[:len(p)] == p for c in chosen)]
        if not pos:
            break
        path = rng.choice(pos)
        chosen.append(path)
        sub = get_at(S, path)
        bases = _bases(draft, S, root_base)
        base_here = base_at(bases, path)
        # the reference object replaces `sub`; the base in effect at the reference object is the base of its parent
        name = rng.choice([n for n in HOSTILE_NAMES if n not in used] or ["n%d" % len(used)])
        used.add(name)
        r = rng.random()
        if r < 0.4 or (root_base == "" and r < 0.55):
            placement = "definitions" if rng.random() < 0.8 else "slot"
            if placement == "definitions":
                defs[name] = sub
                tokens = ["definitions", name]
            else:
                slots.append(sub)
                tokens = ["x-slots", str(len(slots) - 1)]
            if root_base == "":
                target = "#" + _frag(rng, tokens)
                base_for_spell = ""
            else:
                target = U.defrag(root_base)[0] + "#" + _frag(rng, tokens)
                base_for_spell = base_here
        elif r < 0.85:
            placement = "store"
            url = STORE_DIR + "doc%d.json" % len(store)
            if rng.random() < 0.5:
                doc = sub
                target = url + rng.choice(["", "#"])
                if isinstance(doc, dict) and rng.random() < 0.4 and idkw not in doc:
                    doc = dict({idkw: url}, **doc)
            else:
                doc = {"definitions": {name: sub}}
                if rng.random() < 0.4:
                    doc = dict({idkw: url}, **doc)
                target = url + "#" + _frag(rng, ["definitions", name])
            # second-level references inside the store document
            # (fragment-only references inside a store document are only sound when the document's
            #  own id, if any, is its retrieval URL: other ids are "embedded ids", issue 371)
            if isinstance(doc, dict) and rng.random() < 0.4 and not has_nested_id(draft, doc) \
                    and doc.get(idkw, url) == url:
                inner = transform_local(rng, draft, doc, max_refs=2, siblings=False)
                if inner.info.get("refs"):
                    doc = inner.schema
                    info["refs"] += inner.info["refs"]
                    info["inner_store_refs"] = info.get("inner_store_refs", 0) + inner.info["refs"]
            # a fetched document may itself change the base URI (a relative id on the evaluation path) and refer,
            # below it, to another document relative to that new base
            if isinstance(doc, dict) and idkw not in doc and rng.random() < 0.3 and draft != 3 or \
                    (isinstance(doc, dict) and idkw not in doc and rng.random() < 0.3 and "required" not in doc):
                inner_pos = [q for q in extractable_positions(draft, doc) if not _inside_ref_object(doc, q)]
                if inner_pos:
                    q = rng.choice(inner_pos)
                    rid = rng.choice(["sub/", "x/y.json", "#frag", "../up/", "deeper/more/"])
                    new_base = U.resolve(url, rid)
                    iname = "inner%d.json" % len(store)
                    inner_url = U.resolve(new_base, iname)
                    if U.norm_key(inner_url) not in {U.norm_key(k_) for k_ in store} and inner_url != url:
                        store[inner_url] = get_at(doc, q)
                        doc = set_at(doc, list(q), {"$ref": iname})
                        doc = dict({idkw: rid}, **doc)
                        info["refs"] += 1
                        info["relative_id_in_store_doc"] = info.get("relative_id_in_store_doc", 0) + 1
            # the caller may register the document under a spelling with an empty fragment
            # (what {doc[id]: doc} gives when the id ends in '#'): the store normalises its keys
            store[url + "#" if rng.random() < 0.3 else url] = doc
            base_for_spell = base_here
        else:
            placement = "handler"
            url = HANDLER_DIR + "h%d.json" % len(handler_docs)
            handler_docs[url] = sub if rng.random() < 0.5 else {"definitions": {name: sub}}
            target = url if handler_docs[url] is sub else url + "#" + _frag(rng, ["definitions", name])
            base_for_spell = ""     # absolute references only under a custom scheme
        ref_str = _spell(rng, base_for_spell, target) if base_for_spell else target
        if ref_str == "":
            ref_str = target
        ref = {"$ref": ref_str}
        if rng.random() < 0.3 and root_base == "" or (rng.random() < 0.3 and root_base):
            # chain through a definition of the root document
            name2 = rng.choice([n for n in HOSTILE_NAMES if n not in used] or ["c%d" % len(used)])
            used.add(name2)
            root_doc = U.defrag(root_base)[0]
            # the chained definition lives in the root document: base there is the root base
            inner_ref = {"$ref": _spell(rng, root_base, target) if root_base else target}
            if root_base == "" and placement in ("definitions", "slot"):
                inner_ref = {"$ref": target}
            defs[name2] = inner_ref
            t2 = (root_doc + "#" if root_base else "#") + _frag(rng, ["definitions", name2])
            ref = {"$ref": _spell(rng, base_here, t2) if root_base else t2}
            info["chains"] += 1
        if rng.random() < 0.35:
            ref = dict(ref)
            ref[rng.choice(["type", "minimum", "enum", "title", "maxLength", "items", "required" if draft >= 4 else "pattern"])] = \
                rng.choice(["null", 10 ** 6, [], "t", 0]) if True else None
            k = list(ref)
            if rng.random() < 0.5:
                ref = {kk: ref[kk] for kk in reversed(k)}
            # keep well-formed values for the few keywords that need them
            for kk, vv in list(ref.items()):
                if kk == "items" and not isinstance(vv, (dict, list)):
                    ref[kk] = {"type": "null"}
                if kk == "required" and not isinstance(vv, list):
                    ref[kk] = ["__never__"]
                if kk == "enum" and not isinstance(vv, list):
                    ref[kk] = ["__never__"]
                if kk == "type" and vv not in ("null",):
                    ref[kk] = "null"
                if kk in ("minimum", "maxLength") and not isinstance(vv, int):
                    ref[kk] = 10 ** 6 if kk == "minimum" else 0
                if kk == "pattern" and not isinstance(vv, str):
                    ref[kk] = "^__never__$"
                if kk == "title" and not isinstance(vv, str):
                    ref[kk] = "t"
            info["siblings"] = info.get("siblings", 0) + 1
        S = set_at(S, list(path), ref)
        info["refs"] += 1
        info["placements"].append(placement)
        info["spellings"].append(ref_str)
        info["names"].append(name)
    if not info["refs"]:
        return None
    S = dict(S)
    if defs:
        S["definitions"] = defs
    if slots:
        S["x-slots"] = slots
    return Arrangement(draft, S, s0_with_ids, store=store, handler_docs=handler_docs, info=info)


# ======================================================================
# recursive templates

def recursive_templates(rng, draft, leaf):
    """Yield (name, S, store) for recursive schemas whose recursion always
    descends into the instance.  `leaf` is an assertion schema placed at
    every node."""
    idkw = IDKW[draft]
    yield "tree-through-hash", {"properties": {"v": leaf, "kids": {"items": {"$ref": "#"}}}}, {}
    # the empty reference designates the current document (only generated under fragment-free bases)
    yield "tree-through-empty-ref", {"properties": {"v": leaf, "kids": {"items": {"$ref": ""}}}}, {}
    yield "tree-through-empty-ref-with-id", {idkw: ROOT_URL, "properties": {"v": leaf, "kids": {"items": {"$ref": ""}},
                                                                   "head": {"$ref": "root.json"}}}, {}
    yield "list-through-definition", {
        "definitions": {"n": {"properties": {"v": leaf, "next": {"$ref": "#/definitions/n"}}}},
        "properties": {"head": {"$ref": "#/definitions/n"}}}, {}
    yield "mutual", {
        "definitions": {"a": {"properties": {"v": leaf, "b": {"$ref": "#/definitions/b"}}},
                        "b": {"items": {"$ref": "#/definitions/a"}}},
        "properties": {"head": {"$ref": "#/definitions/a"}, "kids": {"$ref": "#/definitions/b"}}}, {}
    yield "through-store-and-back", {
        idkw: ROOT_URL, "definitions": {"x": {"properties": {"v": leaf, "next": {"$ref": STORE_DIR + "node.json"}}}},
        "properties": {"head": {"$ref": "#/definitions/x"}}}, {
        STORE_DIR + "node.json": {"properties": {"v": leaf, "back": {"$ref": ROOT_URL + "#/definitions/x"},
                                                 "self": {"items": {"$ref": "#"}}}}}
    yield "relative-between-store-docs", {
        idkw: ROOT_URL, "items": {"$ref": "../lib2/a.json"}}, {
        "http://root.example/lib2/a.json": {"properties": {"v": leaf, "b": {"$ref": "b.json#/definitions/q"}}},
        "http://root.example/lib2/b.json": {"definitions": {"q": {"items": {"$ref": "a.json"}}}}}
    if draft >= 4:
        yield "anyOf-recursion", {
            "definitions": {"t": {"anyOf": [leaf, {"type": "array", "items": {"$ref": "#/definitions/t"}}]}},
            "$ref": "#/definitions/t"}, {}
    yield "metaschema", {"properties": {"s": {"$ref": "http://json-schema.org/draft-0%d/schema#" % draft}}}, {}


def with_ref_siblings(rng, draft, node, p=0.7):
    """A copy of `node` in which reference objects also carry asserting keywords (which drafts up to 7 say are
    ignored).  The draft's own id keyword is never added (known finding: it changes the base)."""
    pool = [("type", "null"), ("enum", ["vf-never"]), ("maxItems", 0), ("minimum", 10 ** 9), ("maxLength", 0), ("pattern", "^vf-never$")]
    pool += [("maxProperties", 0), ("not", {}), ("required", ["vf-missing"]), ("allOf", [{"type": "null"}])] if draft >= 4 else \
            [("disallow", ["any"]), ("extends", {"type": "null"}), ("divisibleBy", 10 ** 9 + 7)]
    if draft >= 6:
        pool += [("const", "vf-never"), ("propertyNames", False), ("contains", False)]
    if isinstance(node, list):
        return [with_ref_siblings(rng, draft, x, p) for x in node]
    if not isinstance(node, dict):
        return node
    out = {k: with_ref_siblings(rng, draft, v, p) for k, v in node.items()}
    if isinstance(node.get("$ref"), str) and rng.random() < p:
        for k, v in rng.sample(pool, rng.randrange(1, 4)):
            out.setdefault(k, v)
    return out


def recursive_instance(rng, leafgen, depth):
    """Instances shaped like the templates (head/next/kids/v/b/back/self/s)."""
    if depth <= 0:
        return leafgen()
    r = rng.random()
    out = {}
    if rng.random() < 0.8:
        out["v"] = leafgen()
    for k in ("kids", "self"):
        if rng.random() < 0.45:
            out[k] = [recursive_instance(rng, leafgen, depth - 1) for _ in range(rng.randrange(0, 3))]
    for k in ("head", "next", "b", "back"):
        if rng.random() < 0.5:
            out[k] = recursive_instance(rng, leafgen, depth - 1)
    if r < 0.15:
        return [recursive_instance(rng, leafgen, depth - 1) for _ in range(rng.randrange(0, 3))]
    return out


def depth_of(x):
    if isinstance(x, dict):
        return 1 + max([depth_of(v) for v in x.values()] or [0])
    if isinstance(x, list):
        return 1 + max([depth_of(v) for v in x] or [0])
    return 0


# ======================================================================
# instance-guided unfolding (S0 for recursive schemas)

_IN_PLACE_LIST = ("allOf", "anyOf", "oneOf")
_IN_PLACE_ONE = ("not", "if", "then", "else")


def unfold_for(draft, S, docs, insts, base="", max_inplace=12):
    """A reference-free schema that is S with every reference replaced by its
    target *wherever one of the instances `insts` can reach it*; references in
    subschemas no instance reaches are replaced by {} (they are never
    evaluated).  Terminates because every descent consumes instance depth and
    in-place hops are capped (in-place cycles are outside the property)."""
    idkw = IDKW[draft]
    docs = {U.norm_key(k): v for k, v in (docs or {}).items()}
    root_base = base
    if isinstance(S, dict) and isinstance(S.get(idkw), str) and S[idkw] and "$ref" not in S:
        root_base = U.resolve(base, S[idkw]) if base else S[idkw]
    docs.setdefault(U.norm_key(root_base), S)
    docs.setdefault(U.norm_key(base), S)

    def children(insts, pick):
        out = []
        for i in insts:
            out.extend(pick(i))
        return out

    def go(node, cur, insts, hops):
        if node is True or node is False or not isinstance(node, dict):
            return node
        if isinstance(node.get("$ref"), str):
            if not insts:
                return {}
            if hops >= max_inplace:
                raise InlineError("in-place reference cycle")
            url = U.resolve(cur, node["$ref"]) if cur else node["$ref"]
            doc_url, frag = U.defrag(url)
            if doc_url not in docs:
                raise InlineError("no document %r" % doc_url)
            try:
                target = U.ptr_walk(docs[doc_url], frag)
            except U.PointerError as e:
                raise InlineError(str(e))
            return go(target, url, insts, hops + 1)
        sid = node.get(idkw)
        if isinstance(sid, str) and sid:
            cur = U.resolve(cur, sid) if cur else sid
        out = {}
        for k, v in node.items():
            if k == idkw or k == "definitions":
                continue
            if k in _IN_PLACE_LIST and isinstance(v, list) and draft >= 4:
                out[k] = [go(s, cur, insts, hops) for s in v]
            elif k in _IN_PLACE_ONE and isinstance(v, (dict, bool)) and draft >= 4:
                out[k] = go(v, cur, insts, hops)
            elif k == "extends" and draft == 3:
                out[k] = [go(s, cur, insts, hops) for s in v] if isinstance(v, list) else go(v, cur, insts, hops)
            elif k in ("type", "disallow") and draft == 3 and isinstance(v, list):
                out[k] = [go(s, cur, insts, hops) if isinstance(s, dict) else s for s in v]
            elif k == "dependencies" and isinstance(v, dict):
                out[k] = {n: (go(s, cur, [i for i in insts if isinstance(i, dict) and n in i], hops)
                              if isinstance(s, (dict, bool)) else s) for n, s in v.items()}
            elif k == "properties" and isinstance(v, dict):
                out[k] = {n: go(s, cur, children(insts, lambda i, n=n: [i[n]] if isinstance(i, dict) and n in i else []), 0)
                          for n, s in v.items()}
            elif k == "patternProperties" and isinstance(v, dict):
                out[k] = {p: go(s, cur, children(insts, lambda i: list(i.values()) if isinstance(i, dict) else []), 0)
                          for p, s in v.items()}
            elif k == "additionalProperties" and isinstance(v, (dict, bool)):
                out[k] = go(v, cur, children(insts, lambda i: list(i.values()) if isinstance(i, dict) else []), 0)
            elif k == "propertyNames" and isinstance(v, (dict, bool)):
                out[k] = go(v, cur, children(insts, lambda i: list(i.keys()) if isinstance(i, dict) else []), 0)
            elif k == "items":
                if isinstance(v, list):
                    out[k] = [go(s, cur, children(insts, lambda i, j=j: [i[j]] if isinstance(i, list) and j < len(i) else []), 0)
                              for j, s in enumerate(v)]
                else:
                    out[k] = go(v, cur, children(insts, lambda i: list(i) if isinstance(i, list) else []), 0)
            elif k in ("additionalItems", "contains") and isinstance(v, (dict, bool)):
                out[k] = go(v, cur, children(insts, lambda i: list(i) if isinstance(i, list) else []), 0)
            else:
                out[k] = v
        return out

    return go(S, base, list(insts), 0)


def arrangement_ok(arr):
    """Construction self-check with the independent inliner: inline(S) must be S0 (modulo inert keys)."""
    docs = dict(arr.store)
    docs.update(arr.handler_docs)
    try:
        inl = inline(arr.draft, arr.schema, docs=docs, budget=12)
    except InlineError:
        return False
    return strip_inert(arr.draft, inl) == strip_inert(arr.draft, arr.s0)
