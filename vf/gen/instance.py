"""G-inst(schema): schema-directed instances (both verdicts well represented)."""
from vf.gen import values as V
from vf.gen.pools import PROP_NAMES, STRINGS

PATTERN_EXEMPLARS = {
    "^a": ["a", "ab", "ba"], "b$": ["b", "ab", "ba"], "a|b": ["a", "b", "foo"], "^[ab]+$": ["ab", "abab", "ab1"],
    "1": ["1", "b1", "a"], ".": ["a", ""], "^$": ["", "a"], "(a)(b)?": ["a", "ab", "b"], "a{2}": ["aa", "a"],
    "^.{1,2}$": ["a", "ab", "foo", ""], "[^a]": ["b", "a", "aa"], "ab*": ["a", "abb", "b"],
    "^(ab|b1)$": ["ab", "b1", "a"], "o+": ["foo", "fo", "a"], "^b[0-9]$": ["b1", "b", "b1b1"], "f.o": ["foo", "fo"],
}


def harvest(schema, acc=None, depth=0):
    """Collect constants worth trying as (parts of) instances."""
    if acc is None:
        acc = {"names": set(), "values": [], "numbers": [], "strings": set()}
    if depth > 6:
        return acc
    if isinstance(schema, dict):
        for k, v in schema.items():
            if k in ("properties", "dependencies", "patternProperties") and isinstance(v, dict):
                for n, s in v.items():
                    if k == "patternProperties":
                        acc["strings"].update(PATTERN_EXEMPLARS.get(n, []))
                        acc["names"].update(PATTERN_EXEMPLARS.get(n, [])[:2])
                    else:
                        acc["names"].add(n)
                    if isinstance(s, list):
                        acc["names"].update(x for x in s if isinstance(x, str))
                    elif isinstance(s, str):
                        acc["names"].add(s)
                    harvest(s, acc, depth + 1)
            elif k == "required" and isinstance(v, list):
                acc["names"].update(x for x in v if isinstance(x, str))
            elif k == "enum" and isinstance(v, list):
                acc["values"].extend(v)
            elif k == "const":
                acc["values"].append(v)
            elif k in ("minimum", "maximum", "exclusiveMinimum", "exclusiveMaximum", "multipleOf", "divisibleBy") \
                    and isinstance(v, (int, float)) and not isinstance(v, bool):
                acc["numbers"].append(v)
            elif k == "pattern" and isinstance(v, str):
                acc["strings"].update(PATTERN_EXEMPLARS.get(v, []))
            elif k in ("type", "disallow") and ("integer" == v or (isinstance(v, list) and "integer" in v)):
                # integer-ness of a float depends on its VALUE: always offer both kinds
                acc["numbers"].extend([1.0, 1.5, 3.0, 0.5, 2.0, 2.5])
            else:
                harvest(v, acc, depth + 1)
    elif isinstance(schema, list):
        for s in schema:
            harvest(s, acc, depth + 1)
    return acc


def _fin(x, fallback):
    if isinstance(x, float) and (x != x or x in (float("inf"), float("-inf"))):
        return fallback
    return x


def _near(rng, n):
    return _fin(_near0(rng, n), n)


def _near0(rng, n):
    try:
        c = rng.random()
        if c < 0.3:
            return n
        if c < 0.5:
            return n + 1
        if c < 0.7:
            return n - 1
        if c < 0.8:
            return n * 2
        if c < 0.9 and isinstance(n, int):
            return float(n) if abs(n) < 2 ** 1000 else n
        return n * 3
    except OverflowError:
        return n


class InstGen:
    def __init__(self, rng, schema):
        self.rng = rng
        self.h = harvest(schema)
        self.names = sorted(self.h["names"]) or list(PROP_NAMES[:3])
        self.keys = sorted(set(self.names) | set(PROP_NAMES[:3]))
        self.schema = schema

    def any(self, depth=2):
        rng = self.rng
        r = rng.random()
        if r < 0.12 and self.h["values"]:
            v = rng.choice(self.h["values"])
            return v if rng.random() < 0.7 else mutate(rng, v)
        if r < 0.22 and self.h["numbers"]:
            return _near(rng, rng.choice(self.h["numbers"]))
        if r < 0.30 and self.h["strings"]:
            return rng.choice(sorted(self.h["strings"]))
        return V.value(rng, depth, keys=self.keys)

    def directed(self, schema=None, depth=3):
        """Try to follow the schema's structure."""
        rng = self.rng
        if schema is None:
            schema = self.schema
        if not isinstance(schema, dict) or depth <= 0 or rng.random() < 0.1:
            return self.any(max(depth, 1))
        if "const" in schema and rng.random() < 0.6:
            return schema["const"]
        if isinstance(schema.get("enum"), list) and schema["enum"] and rng.random() < 0.6:
            return rng.choice(schema["enum"])
        for k in ("allOf", "anyOf", "oneOf", "extends"):
            if isinstance(schema.get(k), list) and schema[k] and rng.random() < 0.4:
                return self.directed(rng.choice(schema[k]), depth)
        for k in ("then", "else", "if", "extends"):
            if isinstance(schema.get(k), dict) and rng.random() < 0.3:
                return self.directed(schema[k], depth)
        t = self._pick_type(schema)
        if t == "object":
            out = {}
            props = schema.get("properties") if isinstance(schema.get("properties"), dict) else {}
            for n, s in props.items():
                if rng.random() < 0.7:
                    out[n] = self.directed(s, depth - 1)
            req = schema.get("required")
            if isinstance(req, list):
                for n in req:
                    if isinstance(n, str) and n not in out and rng.random() < 0.7:
                        out[n] = self.any(depth - 1)
            pats = schema.get("patternProperties") if isinstance(schema.get("patternProperties"), dict) else {}
            for p, s in pats.items():
                if rng.random() < 0.6:
                    ex = PATTERN_EXEMPLARS.get(p, ["a"])
                    out[rng.choice(ex)] = self.directed(s, depth - 1)
            deps = schema.get("dependencies") if isinstance(schema.get("dependencies"), dict) else {}
            for n, dep in deps.items():
                if rng.random() < 0.6:
                    out.setdefault(n, self.any(depth - 1))
                    if isinstance(dep, list) and rng.random() < 0.6:
                        for m in dep:
                            if isinstance(m, str):
                                out.setdefault(m, self.any(depth - 1))
            for _ in range(rng.choice([0, 0, 1, 2])):
                ap = schema.get("additionalProperties")
                out.setdefault(rng.choice(self.keys), self.directed(ap, depth - 1) if isinstance(ap, dict) else self.any(depth - 1))
            return out
        if t == "array":
            items = schema.get("items")
            n = rng.randrange(0, 5)
            out = []
            for i in range(n):
                if isinstance(items, list):
                    s = items[i] if i < len(items) else schema.get("additionalItems")
                else:
                    s = items
                if i > 0 and rng.random() < 0.2:
                    out.append(out[rng.randrange(len(out))])     # duplicates for uniqueItems
                elif isinstance(s, dict):
                    out.append(self.directed(s, depth - 1))
                elif isinstance(schema.get("contains"), dict) and rng.random() < 0.4:
                    out.append(self.directed(schema["contains"], depth - 1))
                else:
                    out.append(self.any(depth - 1))
            return out
        if t == "string":
            if isinstance(schema.get("pattern"), str) and rng.random() < 0.7:
                return rng.choice(PATTERN_EXEMPLARS.get(schema["pattern"], STRINGS))
            return V.string(rng)
        if t in ("number", "integer"):
            nums = [schema[k] for k in ("minimum", "maximum", "exclusiveMinimum", "exclusiveMaximum",
                                        "multipleOf", "divisibleBy")
                    if isinstance(schema.get(k), (int, float)) and not isinstance(schema.get(k), bool)]
            if nums and rng.random() < 0.7:
                n = rng.choice(nums)
                c = rng.random()
                if c < 0.5:
                    return _near(rng, n)
                try:
                    return _fin(n * rng.choice([2, 3, 4, -1, 0]), n)
                except OverflowError:
                    return n
            return V.of_type(rng, t)
        return V.of_type(rng, t, depth, keys=self.keys)

    def _pick_type(self, schema):
        rng = self.rng
        t = schema.get("type")
        cands = []
        if isinstance(t, str):
            cands = [t]
        elif isinstance(t, list):
            cands = [x for x in t if isinstance(x, str)]
        cands = [c for c in cands if c in V.TYPE_REPS]
        if cands and rng.random() < 0.75:
            return rng.choice(cands)
        hints = []
        for k in schema:
            if k in ("properties", "patternProperties", "additionalProperties", "required", "dependencies",
                     "minProperties", "maxProperties", "propertyNames"):
                hints.append("object")
            elif k in ("items", "additionalItems", "minItems", "maxItems", "uniqueItems", "contains"):
                hints.append("array")
            elif k in ("minLength", "maxLength", "pattern"):
                hints.append("string")
            elif k in ("minimum", "maximum", "exclusiveMinimum", "exclusiveMaximum", "multipleOf", "divisibleBy"):
                hints.append("number")
        if hints and rng.random() < 0.8:
            return rng.choice(hints)
        return rng.choice(["null", "boolean", "integer", "number", "string", "array", "object"])

    def batch(self, n):
        out = []
        for i in range(n):
            if self.rng.random() < 0.65:
                x = self.directed()
                if self.rng.random() < 0.3:
                    x = mutate(self.rng, x)
            else:
                x = self.any(3)
            out.append(x)
        return out


def mutate(rng, x, depth=0):
    """Single-edit neighbour of a JSON value."""
    r = rng.random()
    if isinstance(x, dict):
        if x and r < 0.35:
            k = rng.choice(list(x))
            y = dict(x)
            del y[k]
            return y
        if r < 0.6:
            y = dict(x)
            y[rng.choice(PROP_NAMES)] = V.scalar(rng)
            return y
        if x and depth < 3:
            k = rng.choice(list(x))
            y = dict(x)
            y[k] = mutate(rng, x[k], depth + 1)
            return y
        return x
    if isinstance(x, list):
        if x and r < 0.3:
            i = rng.randrange(len(x))
            return x[:i] + x[i + 1:]
        if r < 0.5:
            return x + [V.scalar(rng)]
        if x and r < 0.65:
            return x + [x[rng.randrange(len(x))]]
        if x and depth < 3:
            i = rng.randrange(len(x))
            return x[:i] + [mutate(rng, x[i], depth + 1)] + x[i + 1:]
        return x
    if isinstance(x, bool):
        return rng.choice([not x, int(x), None])
    if isinstance(x, int):
        return rng.choice([x + 1, x - 1, float(x) if abs(x) < 2 ** 1000 else x, str(x)[:20], bool(x) if x in (0, 1) else -x])
    if isinstance(x, float):
        return _fin(rng.choice([x + 0.5, x * 2 if abs(x) < 1e300 else x,
                                int(x) if abs(x) < 1e300 and x == int(x) else 0, -x]), x)
    if isinstance(x, str):
        return rng.choice([x + "a", x[1:], x + "1", "", x.upper(), x + x])
    if x is None:
        return rng.choice([0, False, "", []])
    return x
