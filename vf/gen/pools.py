"""Deliberately tiny pools so that keywords interact."""
PROP_NAMES = ["a", "b", "ab", "b1", "", "foo"]
PATTERNS = ["^a", "b$", "a|b", "^[ab]+$", "1", ".", "^$", "(a)(b)?", "a{2}", "^.{1,2}$", "[^a]", "ab*",
            "^(ab|b1)$", "o+", "^b[0-9]$", "f.o", "^(ab)\\1$", "(a)\\1", "^(.)b\\1$"]
STRINGS = ["", "a", "b", "ab", "b1", "foo", "aa", "ba", "abab", "1", "é", "é", "\U0001d11e",
           "\U0001d11e\U0001d11e", "a b", "fo", "A", "0", "b1b1", "aba", "bbb"]
