"""Access to the implementation under test (always the public API)."""
import warnings

import jsonschema
from jsonschema import exceptions as X
from jsonschema import validators as VAL

CLS = {3: jsonschema.Draft3Validator, 4: jsonschema.Draft4Validator,
       6: jsonschema.Draft6Validator, 7: jsonschema.Draft7Validator}
DRAFTS = (3, 4, 6, 7)
META_ID = {3: "http://json-schema.org/draft-03/schema#", 4: "http://json-schema.org/draft-04/schema#",
           6: "http://json-schema.org/draft-06/schema#", 7: "http://json-schema.org/draft-07/schema#"}
IDKW = {3: "id", 4: "id", 6: "$id", 7: "$id"}

ALLOWED_EXC = (X.ValidationError, X.RefResolutionError, X.UnknownType)


def accepts(draft, schema):
    """check_schema gate.  Returns True/False; other exceptions propagate."""
    try:
        CLS[draft].check_schema(schema)
        return True
    except X.SchemaError:
        return False


def quiet():
    warnings.simplefilter("ignore", DeprecationWarning)
