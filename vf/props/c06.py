"""C06 - each error locates itself truthfully in the instance and in the schema.

Monitor: per-error navigation checker.  Every error in the transitive
context closure of generated failing validations is navigated from the
validated instance (absolute_path) and from the root schema
(absolute_schema_path) with a shape-aware walker that knows, for each
keyword, whether its value is a schema, a list of schemas, a map of schemas
or plain data, and that hops through a reference object exactly when the
node reached at a schema position is one (own RFC 3986/6901 resolution).
"""
import random

from jsonschema import RefResolver
from jsonschema import exceptions as X

from vf import impl
from vf.gen import refs as R
from vf.gen.instance import InstGen
from vf.gen.schema import SchemaGen
from vf.model import uri as U
from vf.model.equal import jeq
from vf.obs.fingerprint import closure

ID = "C06"
LEVEL = "exploration"
RULE = ("failing validations from (a) grammar schemas x schema-directed instances, (b) a deterministic applicator core: "
        "every applicator of every draft built with >= 3 elements and a failure at index/key >= 1, nested up to 3 deep, "
        "(c) reference arrangements from the C02 transform (errors reached through reference hops); every error of the "
        "transitive context closure is checked.  A case is (draft, schema, store, instance); non-trivial when it yields "
        ">= 1 error; distinct by canonical JSON.")
ASSUMPTIONS = ["navigation accepts the identical object, or a type-strict deep-equal value (counted separately)",
               "documented exceptions are explicit branches: draft-3 required, errors below propertyNames, false-schema errors"]
REPORT_COUNTERS = ["errors_checked", "context_errors_checked", "errors_through_ref_hop", "false_schema_errors",
                   "d3_required_errors", "propertyNames_errors", "errors_below_position0", "applicator_cells",
                   "identical_objects", "equal_not_identical"]
TRIPWIRE_EXPECTED = ()


class Nav(Exception):
    pass


def shards(tier):
    return 8 if tier == "quick" else 16


def floors(tier):
    return {"errors_checked": 40000, "context_errors_checked": 2000, "errors_through_ref_hop": 500,
            "false_schema_errors": 100, "d3_required_errors": 100, "propertyNames_errors": 100,
            "errors_below_position0": 3000, "applicator_cells": 60, "identical_objects": 40000, "leaves_without_held_ancestors": 2000,
            "recursive_template_cases": 100, "errors_rendered": 10000, "documents_named_like_a_metaschema": 10}


def same(a, b):
    if a is b:
        return 2
    try:
        return 1 if (type(a) is type(b) and jeq(a, b)) else 0
    except Exception:
        return 0


def walk_instance(instance, path):
    cur = instance
    for p in path:
        if isinstance(cur, dict):
            if p not in cur:
                raise Nav("key %r absent" % (p,))
            cur = cur[p]
        elif isinstance(cur, list):
            if not isinstance(p, int) or isinstance(p, bool) or not 0 <= p < len(cur):
                raise Nav("index %r invalid" % (p,))
            cur = cur[p]
        else:
            raise Nav("cannot descend into %r with %r" % (type(cur).__name__, p))
    return cur


LIST_KW = {"allOf", "anyOf", "oneOf"}
SCHEMA_KW = {"not", "contains", "propertyNames", "then", "else", "if"}
MAP_KW = {"properties", "patternProperties"}


class SchemaWalker:
    def __init__(self, d, root, docs, base_uri=""):
        self.d = d
        self.root = root
        self.idkw = impl.IDKW[d]
        self.docs = {}
        for k, v in (docs or {}).items():
            self.docs[U.norm_key(k)] = v
        rid = root.get(self.idkw) if isinstance(root, dict) and "$ref" not in root else None
        self.root_base = rid if isinstance(rid, str) and rid else base_uri
        self.docs.setdefault(U.norm_key(self.root_base), root)
        self.docs.setdefault(U.norm_key(base_uri), root)
        self.base_uri = base_uri

    def hop(self, node, base, st):
        n = 0
        while isinstance(node, dict) and isinstance(node.get("$ref"), str):
            url = U.resolve(base, node["$ref"]) if base else node["$ref"]
            doc_url, frag = U.defrag(url)
            if doc_url not in self.docs:
                raise Nav("reference to unknown document %r" % doc_url)
            try:
                node = U.ptr_walk(self.docs[doc_url], frag)
            except U.PointerError as e:
                raise Nav("reference does not resolve: %s" % e)
            base = url
            st["hops"] += 1
            n += 1
            if n > 50:
                raise Nav("reference cycle")
        if isinstance(node, dict):
            sid = node.get(self.idkw)
            if isinstance(sid, str) and sid:
                base = U.resolve(base, sid) if base else sid
        return node, base

    def navigate(self, spath, ends_at_schema=False):
        """Returns dict(kind=..., parent=schema holding the keyword, keyword=, value=, holder=...)."""
        d = self.d
        path = list(spath)
        st = {"hops": 0, "under_propertyNames": False, "below0": False}
        node, base = self.hop(self.root, self.base_uri, st)
        i = 0
        holder = None
        while True:
            if i == len(path):
                return dict(st, kind="schema", node=node)
            if not isinstance(node, dict):
                raise Nav("path continues (%r) below a non-object schema %r" % (path[i], node))
            k = path[i]
            i += 1
            if k not in node:
                raise Nav("schema at step %d has no %r" % (i - 1, k))
            val = node[k]
            if k == "propertyNames" and d >= 6:
                st["under_propertyNames"] = True
            if i == len(path):
                if ends_at_schema:
                    # a false-schema error: the path ends at the schema the keyword holds
                    node, base = self.hop(val, base, st)
                    return dict(st, kind="schema", node=node)
                return dict(st, kind="keyword", parent=node, keyword=k, value=val, holder=holder)
            holder = node
            if k in LIST_KW and d >= 4 or (k == "extends" and d == 3 and isinstance(val, list)) or \
                    (k in ("type", "disallow") and d == 3 and isinstance(val, list)) or (k == "items" and isinstance(val, list)):
                idx = path[i]
                i += 1
                if not isinstance(val, list) or not isinstance(idx, int) or isinstance(idx, bool) or not 0 <= idx < len(val):
                    raise Nav("bad index %r into %s" % (idx, k))
                if idx >= 1:
                    st["below0"] = True
                nxt = val[idx]
            elif k in MAP_KW or k == "dependencies" or k == "definitions":
                key = path[i]
                i += 1
                if not isinstance(val, dict) or key not in val:
                    raise Nav("bad key %r into %s" % (key, k))
                if list(val).index(key) >= 1:
                    st["below0"] = True
                nxt = val[key]
                if d == 3 and k == "properties" and i == len(path) - 1 and path[i] == "required" and isinstance(nxt, dict):
                    # draft-3 `required`: read lexically by the parent from the property subschema
                    if "required" not in nxt:
                        raise Nav("property subschema has no `required`")
                    return dict(st, kind="d3required", parent=node, subschema=nxt, keyword="required",
                                value=nxt["required"], prop=key)
            elif (k in SCHEMA_KW and d >= 4) or k in ("additionalProperties", "additionalItems") or \
                    (k == "items") or (k == "extends" and d == 3):
                nxt = val
            else:
                raise Nav("path continues below data keyword %r" % k)
            node, base = self.hop(nxt, base, st)


def json_path(path):
    out = "$"
    for el in path:
        out += "[%d]" % el if isinstance(el, int) else "." + el
    return out


RENDER_EVERY = 3


def check_error(ctx, case, W, instance, e, is_context):
    ctx.count("errors_checked")
    if is_context:
        ctx.count("context_errors_checked")
    bad = lambda kind, msg: ctx.violation(kind, dict(case, error={
        "message": e.message[:200], "validator": repr(e.validator), "path": list(e.absolute_path),
        "schema_path": list(e.absolute_schema_path), "is_context": is_context}), msg)
    # (0) looking at an error - printing it, logging it, asking for its json_path - leaves where it points unchanged
    if ctx.counters.get("errors_checked", 0) % RENDER_EVERY == 0:
        def where():
            return (list(e.path), list(e.schema_path), list(e.relative_path), list(e.relative_schema_path),
                    list(e.absolute_path), list(e.absolute_schema_path), repr(e.validator),
                    [(list(c.absolute_path), list(c.absolute_schema_path)) for c in (e.context or ())])
        before = where()
        try:
            text = [str(e), repr(e), "%s" % (e,), "{}".format(e), e.json_path if hasattr(e, "json_path") else None, str(e)]
        except Exception as exc:
            return bad("rendering-raised", "%s: %s" % (type(exc).__name__, str(exc)[:100]))
        ctx.count("errors_rendered")
        if text[0] != text[-1]:
            return bad("rendering-not-repeatable", "str(error) differs between two calls")
        if where() != before:
            return bad("rendering-moved-the-error", "after str()/repr()/format() the error's paths are %r, before %r" % (where()[1:6:4], before[1:6:4]))
    # (5) absolute = parent's absolute + relative
    if e.parent is not None:
        if list(e.absolute_path) != list(e.parent.absolute_path) + list(e.relative_path):
            return bad("absolute-path", "absolute_path is not parent's absolute path + relative path")
        if list(e.absolute_schema_path) != list(e.parent.absolute_schema_path) + list(e.relative_schema_path):
            return bad("absolute-schema-path", "absolute_schema_path is not parent's + relative")
    else:
        if list(e.absolute_path) != list(e.relative_path) or list(e.absolute_schema_path) != list(e.relative_schema_path):
            return bad("absolute-path", "top-level error: absolute and relative paths differ")
    if e.path is not e.relative_path or e.schema_path is not e.relative_schema_path:
        return bad("aliases", "path/relative_path aliases differ")
    # (6) json_path
    try:
        if e.json_path != json_path(e.absolute_path):
            return bad("json_path", "json_path %r, expected %r" % (e.json_path, json_path(e.absolute_path)))
    except Exception as ex:
        return bad("json_path", "json_path raised %s" % type(ex).__name__)
    # (4) schema navigation
    try:
        nav = W.navigate(e.absolute_schema_path, ends_at_schema=e.validator is None)
    except Nav as ex:
        return bad("schema-navigation", "absolute_schema_path %r does not navigate: %s" % (list(e.absolute_schema_path), ex))
    if nav["hops"]:
        ctx.count("errors_through_ref_hop")
    if nav["below0"]:
        ctx.count("errors_below_position0")
    apath = list(e.absolute_path)
    if nav["kind"] == "schema":
        # false-schema error: no keyword, path ends at the `false`
        ctx.count("false_schema_errors")
        if nav["node"] is not False or e.schema is not False or e.validator is not None or e.validator_value is not None:
            return bad("false-schema", "schema path ends at a schema position but the error is not a false-schema error "
                       "(node %r, validator %r)" % (nav["node"], e.validator))
    elif nav["kind"] == "d3required":
        ctx.count("d3_required_errors")
        if e.validator != "required" or list(e.relative_schema_path)[-1] != "required":
            return bad("d3-required", "validator is %r" % (e.validator,))
        if not same(nav["value"], e.validator_value) or not same(nav["parent"], e.schema):
            return bad("d3-required", "recorded schema/value do not match the parent schema / subschema's `required`")
        try:
            holder = walk_instance(instance, apath[:-1])
        except Nav as ex:
            return bad("instance-navigation", str(ex))
        if not same(holder, e.instance) or not isinstance(holder, dict) or apath[-1] in holder or apath[-1] != nav["prop"]:
            return bad("d3-required", "path minus last element must reach the recorded instance, last element must be the missing key")
        return
    else:
        # (2) validator is the last element of the schema path
        if e.validator != list(e.relative_schema_path)[-1] or e.validator != nav["keyword"]:
            return bad("validator", "validator %r is not the last element of schema path %r" % (e.validator, list(e.relative_schema_path)))
        # (3) schema[validator] is validator_value ; navigation reaches it with parent schema
        s1 = same(nav["value"], e.validator_value)
        s2 = same(nav["parent"], e.schema)
        if not s1 or not s2:
            return bad("schema-navigation", "navigation reaches %r in %r; recorded validator_value %r" % (
                nav["value"], "recorded schema" if s2 else "a different schema", e.validator_value))
        if not isinstance(e.schema, dict) or e.validator not in e.schema or not same(e.schema[e.validator], e.validator_value):
            return bad("schema-contains-keyword", "recorded schema lacks the keyword with the recorded value")
        ctx.count("identical_objects" if s1 == 2 and s2 == 2 else "equal_not_identical")
    # (1) instance navigation
    try:
        reached = walk_instance(instance, apath)
    except Nav as ex:
        return bad("instance-navigation", "absolute_path %r: %s" % (apath, ex))
    if nav.get("under_propertyNames"):
        ctx.count("propertyNames_errors")
        if not isinstance(reached, dict) or not isinstance(e.instance, str) or e.instance not in reached:
            return bad("propertyNames-instance", "instance of an error below propertyNames must be a key of the object at its path")
        return
    s = same(reached, e.instance)
    if not s:
        return bad("instance-navigation", "absolute_path %r reaches %r, recorded instance is %r" % (apath, reached, e.instance))


def check_case(ctx, d, schema, store, handler_docs, inst, info=None):
    cls = impl.CLS[d]
    case = {"draft": d, "schema": schema, "store": store, "handler_docs": handler_docs, "instance": inst}
    def make_validator():
        if store or handler_docs:
            def handler(url):
                return handler_docs[url.split("#")[0]]
            resolver = RefResolver.from_schema(schema, id_of=cls.ID_OF, store=dict(store), handlers={"vf": handler})
            return cls(schema, resolver=resolver)
        return cls(schema)
    try:
        errs = list(make_validator().iter_errors(inst))
    except Exception:
        ctx.count("skipped_exception")
        return 0
    ctx.case([d, schema, store, inst], nontrivial=bool(errs))
    if not errs:
        return 0
    docs = dict(store)
    docs.update(handler_docs)
    W = SchemaWalker(d, schema, docs)
    top = set(map(id, errs))
    has_context = False
    for e in closure(errs):
        check_error(ctx, case, W, inst, e, id(e) not in top)
        has_context = has_context or bool(e.context)
    if has_context:
        # the same errors reached WITHOUT keeping their ancestors alive: best_match / jsonschema.validate hand out
        # a leaf of a context tree, and a consumer may stream iter_errors keeping only leaves
        del errs, e
        try:
            from jsonschema.exceptions import best_match
            leaf = best_match(make_validator().iter_errors(inst))
            if leaf is not None:
                ctx.count("leaves_without_held_ancestors")
                check_error(ctx, dict(case, via="best_match"), W, inst, leaf, leaf.parent is not None)
            leaves = []
            for top_error in make_validator().iter_errors(inst):
                stack = list(top_error.context)
                while stack:
                    c = stack.pop()
                    if c.context:
                        stack.extend(c.context)
                    else:
                        leaves.append(c)
                del top_error
            for leaf in leaves:
                ctx.count("leaves_without_held_ancestors")
                check_error(ctx, dict(case, via="streamed leaves"), W, inst, leaf, True)
        except Exception as ex:
            ctx.violation("leaf-check-raised", case, "%s: %s" % (type(ex).__name__, str(ex)[:120]))
        return 1
    return len(errs)


# ---------------------------------------------------------------------- deterministic applicator core

def leaf(rng):
    """(schema, good instance, bad instance)"""
    return rng.choice([
        ({"type": "string"}, "s", 1), ({"type": "integer"}, 1, "s"), ({"enum": ["x", "y"]}, "x", "z"),
        ({"minimum": 5}, 7, 3), ({"maxLength": 2}, "ab", "abcd"), ({"type": "null"}, None, [1]),
        ({"maxItems": 1}, [1], [1, 2, 3]), ({"pattern": "^a"}, "ab", "ba"), ({"type": "boolean"}, True, {"k": 1}),
    ])


def combos(rng, d, depth):
    """Yield (cell, schema, instance) with a failure below position 0 of an applicator, nested `depth` deep."""
    def sub(k):
        if k <= 0:
            s, g, b = leaf(rng)
            return s, g, b
        name, s, bad, good = build(rng.choice(cells(d)), k - 1)
        return s, good, bad

    def build(cell, k):
        s1, g1, b1 = sub(k)
        s2, g2, b2 = sub(k)
        s3, g3, b3 = sub(k)
        if cell == "items-list":
            return cell, {"items": [s1, s2, s3]}, [g1, g2, b3], [g1, g2, g3]
        if cell == "items-schema":
            return cell, {"items": s3}, [g3, g3, b3], [g3]
        if cell == "additionalItems":
            return cell, {"items": [s1], "additionalItems": s3}, [g1, g3, b3, b3], [g1, g3]
        if cell == "properties":
            return cell, {"properties": {"p": s1, "q": s2, "r": s3}}, {"p": g1, "q": g2, "r": b3}, {"p": g1}
        if cell == "patternProperties":
            return cell, {"patternProperties": {"^p": s1, "^q": s2, "^r": s3}}, {"p1": g1, "q1": g2, "r1": b3, "r2": b3}, {"p1": g1}
        if cell == "additionalProperties":
            return cell, {"properties": {"p": s1}, "additionalProperties": s3}, {"p": g1, "x": g3, "y": b3}, {"p": g1}
        if cell == "dependencies":
            return cell, {"dependencies": {"p": {"properties": {"z": s1}}, "q": {"properties": {"z": s3}}}}, \
                {"p": 1, "q": 2, "z": b3 if same(b3, b1) or True else b3}, {"z": g1}
        if cell == "allOf":
            return cell, {"allOf": [s1, {}, s3]}, b3 if _ok(d, s1, b3) else b3, g3 if _ok(d, s1, g3) else g1
        if cell == "anyOf":
            return cell, {"anyOf": [s1, s2, s3, {"type": "object", "required": ["__never__"]} if d >= 4 else s3]}, \
                _bad_for_all(d, [s1, s2, s3]), g1
        if cell == "oneOf":
            return cell, {"oneOf": [s1, s2, s3]}, _bad_for_all(d, [s1, s2, s3]), g1
        if cell == "extends-list":
            return cell, {"extends": [s1, {}, s3]}, b3, g3
        if cell == "extends-schema":
            return cell, {"extends": s3}, b3, g3
        if cell == "type-union":
            return cell, {"type": [s1, s2, s3]}, _bad_for_all(d, [s1, s2, s3]), g1
        if cell == "if-then":
            return cell, {"if": {}, "then": s3}, b3, g3
        if cell == "if-else":
            return cell, {"if": False, "else": s3}, b3, g3
        if cell == "propertyNames":
            return cell, {"propertyNames": {"allOf": [{}, {"maxLength": 1}, {"pattern": "^a"}]}}, {"a": 1, "bcd": 2, "zz": 3}, {"a": 1}
        if cell == "false-schema":
            return cell, {"properties": {"p": True, "q": {}, "r": False}, "items": [True, False]}, \
                rng.choice([{"p": 1, "r": 2}, [1, 2]]), {"p": 1}
        if cell == "d3-required":
            return cell, {"properties": {"p": s1, "q": {"required": True}, "r": dict(s3, required=True)}}, {"p": g1}, {"p": g1, "q": 1, "r": g3}
        if cell == "hostile-keys":
            names = ["[0]", "a.[b", ".", "a.b", "[", "]", "$", "", " ", "0", "a[1]", ".[", "'", '"', "\\", "é", "$.a", "[0].x"]
            rng.shuffle(names)
            pick = names[:5]
            return cell, {"properties": {pick[0]: s3, pick[1]: {"items": s3}}, "additionalProperties": s3,
                          "patternProperties": {"^zz": s1}}, \
                {pick[0]: b3, pick[1]: [g3, b3], pick[2]: b3, pick[3]: {pick[4]: b3}, "zz" + pick[2]: b1}, {pick[0]: g3}
        if cell == "keyword-named-members":
            # member names that are spelled like keywords (a schema path step "if" may be the keyword or a property)
            names = ["if", "$ref", "then", "else", "not", "items", "properties", "type", "allOf", "anyOf", "additionalProperties", "dependencies",
                     "required", "enum", "const", "id", "$id", "definitions", "extends", "contains", "propertyNames", "patternProperties", "oneOf"]
            rng.shuffle(names)
            pick = names[:5]
            sch = {"properties": {pick[0]: s3, pick[1]: {"items": s3}, pick[2]: {"properties": {pick[0]: s3}}},
                   "patternProperties": {"^" + pick[3].replace("$", "[$]") + "$": s3},
                   "dependencies": {pick[4]: {"properties": {pick[0]: s1}} if d >= 4 else {"properties": {pick[0]: s1}}}}
            return cell, sch, {pick[0]: b3, pick[1]: [g3, b3], pick[2]: {pick[0]: b3}, pick[3]: b3, pick[4]: 1}, {pick[0]: g3}
        if cell == "contains-not":
            return cell, {"items": [{}, {"not": {}}, {"contains": {"type": "null"}}]}, [1, 2, [3]], [1]
        raise AssertionError(cell)

    for cell in cells(d):
        name, s, bad, good = build(cell, depth)
        yield cell, s, bad


def _ok(d, s, x):
    try:
        return impl.CLS[d](s).is_valid(x)
    except Exception:
        return False


def _bad_for_all(d, schemas):
    for cand in (1, "s", None, [1, 2, 3], {"k": 1}, "zzzz", 3, True, "ba", 2.5):
        if not any(_ok(d, s, cand) for s in schemas):
            return cand
    return {"__nothing__": [[]]}


def cells(d):
    c = ["items-list", "items-schema", "additionalItems", "properties", "patternProperties", "additionalProperties",
         "dependencies", "hostile-keys", "keyword-named-members"]
    if d == 3:
        c += ["extends-list", "extends-schema", "type-union", "d3-required"]
    else:
        c += ["allOf", "anyOf", "oneOf"]
    if d >= 6:
        c += ["propertyNames", "false-schema", "contains-not"]
    if d >= 7:
        c += ["if-then", "if-else"]
    return c


def run(ctx):
    impl.quiet()
    rr = random.Random(606)
    idx = 0
    seen_cells = set()
    for d in impl.DRAFTS:
        for depth in (0, 1, 2):
            for rep in range(6 if depth else 3):
                for cell, s, bad in combos(rr, d, depth):
                    idx += 1
                    if not ctx.mine(idx):
                        continue
                    try:
                        if not impl.accepts(d, s):
                            ctx.count("core_schema_rejected")
                            continue
                    except Exception:
                        continue
                    n = check_case(ctx, d, s, {}, {}, bad)
                    if n and (d, cell) not in seen_cells:
                        seen_cells.add((d, cell))
                        ctx.count("applicator_cells")
                        ctx.count("cell:d%d:%s" % (d, cell))
    # recursive reference templates (incl. the empty reference), every reference object also carrying asserting
    # keywords, which are ignored: no error may locate itself at one of them
    rq = random.Random(707)
    for k in range(ctx.scale(24, 200)):
        d = impl.DRAFTS[k % 4]
        gq = SchemaGen(rq, d, maxdepth=1)
        leaf_s = gq.keyword_schema(rq.choice(["type", "minimum", "maxLength", "enum", "pattern", "maxItems"]))
        igq = InstGen(rq, leaf_s)
        for name, S, store in R.recursive_templates(rq, d, leaf_s):
            idx += 1
            if not ctx.mine(idx) or name == "metaschema":
                continue
            if isinstance(S, dict) and impl.IDKW[d] not in S and rq.random() < 0.4:
                # the document calls itself what a bundled metaschema is called (a patched copy of a draft): its local
                # references still address IT
                S = dict(S, **{impl.IDKW[d]: rq.choice([impl.META_ID[d], impl.META_ID[7].rstrip("#"), impl.META_ID[3]])})
                ctx.count("documents_named_like_a_metaschema")
            if rq.random() < 0.7:
                S = R.with_ref_siblings(rq, d, S)
                store = {u: R.with_ref_siblings(rq, d, doc) for u, doc in store.items()}
            for _ in range(2):
                inst = R.recursive_instance(rq, lambda: igq.any(1), rq.choice([2, 3]))
                ctx.count("recursive_template_cases")
                check_case(ctx, d, S, store, {}, inst)
    rng = ctx.rng
    for i in range(ctx.scale(2500, 30000)):
        d = impl.DRAFTS[i % 4]
        g = SchemaGen(rng, d, maxdepth=rng.choice([2, 3]))
        s0 = g.schema()
        try:
            if not impl.accepts(d, s0):
                continue
        except Exception:
            continue
        ig = InstGen(rng, s0)
        insts = ig.batch(3)
        if isinstance(s0, dict) and rng.random() < 0.5:
            arr = R.arrange(rng, d, s0)
            if arr is not None and R.arrangement_ok(arr):
                try:
                    ok = impl.accepts(d, arr.schema)
                except Exception:
                    ok = False
                if ok:
                    for inst in insts:
                        check_case(ctx, d, arr.schema, arr.store, arr.handler_docs, inst)
                    if i % 301 == 0:
                        ctx.sample({"draft": d, "schema": arr.schema, "store": arr.store, "instance": insts[0]})
                    continue
        for inst in insts:
            check_case(ctx, d, s0, {}, {}, inst)


def replay(ctx, rec):
    global RENDER_EVERY
    RENDER_EVERY = 1
    impl.quiet()
    c = rec["case"]
    check_case(ctx, c["draft"], c["schema"], c.get("store", {}), c.get("handler_docs", {}), c["instance"])
