"""C02 - $ref is transparent: a reference behaves as the schema it designates.

Monitor: metamorphic (extraction transform) + model cross-check.  A
reference-free S0 is rewritten into S by moving subschemas behind references
(definitions, array slots, store documents, handler-served documents, chains,
sibling keywords, hostile names, base-URI arrangements); error *locations*
(absolute instance path, keyword, contexts) of S and S0 must coincide and a
resolvable reference must never raise.  Recursive templates are compared with
their lazy unfolding and with the model M (own RFC 3986/6901 resolution).
"""
import random

from jsonschema import RefResolver
from jsonschema import exceptions as X

from vf import impl
from vf.gen import refs as R
from vf.gen.instance import InstGen
from vf.gen.schema import SchemaGen
from vf.model import eval as M
from vf.model import uri as U
from vf.obs.fingerprint import locs
from vf.obs.wrap import ScopeLog

ID = "C02"
LEVEL = "exploration"
RULE = ("reference-free grammar schemas S0 rewritten by the extraction transform (1-4 non-overlapping subschemas moved "
        "to definitions / array slots / store documents / handler documents, chains, second-level references inside "
        "store documents, sibling keywords next to $ref) under base arrangements {no root id, absolute root id, root id "
        "with trailing '#', nested id/$id on the evaluation path (absolute, relative, changing folder)} with absolute, "
        "relative, absolute-path and fragment-only spellings verified by own RFC 3986 code; deterministic core: every "
        "hostile definition name x 3 percent-encoding styles x 4 base arrangements x 4 drafts; recursive templates "
        "(tree through '#', list, mutual, through a store document and back, relative references between store "
        "documents, anyOf recursion, bundled metaschema) compared with their unfolding and with model M.  A case is "
        "(draft, S, store, instance); non-trivial when S contains >= 1 reference that is evaluated path-wise (S != S0); "
        "distinct by canonical JSON.")
ASSUMPTIONS = ["S0 is by construction S with each reference replaced by its target; the construction is self-checked "
               "at run time by an independent inliner (vf/gen/refs.py:inline) - a failed self-check is inconclusive",
               "targets identified only by an embedded id and base changes off the evaluation path are not generated (issue 371, excluded by the property)",
               "relative references only under http bases; the empty reference is not generated"]
REPORT_COUNTERS = ["cases", "cases_with_errors", "arrangements", "mode:noid", "mode:rootid", "mode:rootid#", "mode:nested",
                   "placement:definitions", "placement:slot", "placement:store", "placement:handler", "chains",
                   "inner_store_refs", "siblings_next_to_ref", "hostile_name_resolutions", "recursive_cases",
                   "recursion_depth3plus", "model_crosschecks", "max_scope_depth", "transform_selfcheck_ok"]
# the known-finding probes end in a (blocked, recorded) urlopen call
TRIPWIRE_EXPECTED = ("urlopen",)

NONHIER_MECH = "non-hierarchical-base-uri-breaks-fragment-references"
OWN_ID_MECH = "own-id-keyword-next-to-ref-changes-base"


def shards(tier):
    return 8 if tier == "quick" else 16


def floors(tier):
    f = {"cases": 15000, "cases_with_errors": 4000, "arrangements": 3000, "chains": 300, "inner_store_refs": 100,
         "siblings_next_to_ref": 300, "hostile_name_resolutions": 2000, "recursive_cases": 1000, "recursive_with_asserting_siblings": 300, "near_identical_url_cases": 2000, "same_string_chain_cases": 800, "configured_validator_cases": 250, "cases_with_a_resolver_that_keeps_nothing": 3000, "retrieval_uri_cases": 400, "id_collision_cases": 300, "reused_after_failed_retrieval": 500, "local_reference_arrangements_through_cli": 150,
         "recursion_depth3plus": 200, "model_crosschecks": 2000, "max_scope_depth": 3, "transform_selfcheck_ok": 3000, "foreign_id_keywords_on_path": 500, "relative_id_in_store_doc": 200, "reused_after_validate": 5000,
         "uri_calibration": 60}
    for m in ("noid", "rootid", "rootid#", "nested"):
        f["mode:" + m] = 200
    for p in ("definitions", "slot", "store", "handler"):
        f["placement:" + p] = 100
    return f


def make_resolver(d, S, store, handler_docs, retrieved_from=None, **kw):
    def handler(url):
        doc_url = url.split("#")[0]
        return handler_docs[doc_url]
    if retrieved_from is not None:
        # the caller says where the document came from (what the CLI's --base-uri does); the root's own id is applied
        # on top of that by the validator
        return RefResolver(retrieved_from, S, store=dict(store), handlers={"vf": handler}, **kw)
    return RefResolver.from_schema(S, id_of=impl.CLS[d].ID_OF, store=dict(store), handlers={"vf": handler}, **kw)


def run_S(d, S, store, handler_docs, inst, retrieved_from=None, **kw):
    cls = impl.CLS[d]
    resolver = make_resolver(d, S, store, handler_docs, retrieved_from, **kw)
    try:
        errs = list(cls(S, resolver=resolver).iter_errors(inst))
        return "ok", locs(errs), resolver
    except X.RefResolutionError as e:
        return "RefResolutionError: %s" % str(e)[:120], None, resolver
    except X.UnknownType:
        return "UnknownType", None, resolver
    except Exception as e:
        return "exc:%s: %s" % (type(e).__name__, str(e)[:100]), None, resolver


def compare(ctx, d, S, S0, store, handler_docs, inst, info, mech=None, model=True):
    case = {"draft": d, "schema": S, "s0": S0, "store": store, "handler_docs": handler_docs, "instance": inst, "info": info}
    st0, l0, _ = run_S(d, S0, {}, {}, inst)
    if st0 != "ok":
        ctx.count("skipped_s0_not_ok")
        return
    st, l, resolver = run_S(d, S, store, handler_docs, inst, retrieved_from=info.get("retrieved_from"))
    ctx.count("cases")
    ctx.case([d, S, store, inst], nontrivial=S != S0)
    if l0:
        ctx.count("cases_with_errors")
    if st != "ok":
        ctx.violation("resolvable-reference-failed", case, "S0 validates normally, S gives %s" % st, mech=mech)
        return
    if l != l0:
        ctx.violation("locations-differ", case, "error locations with references %r, inlined %r" % (l[:3], l0[:3]), mech=mech)
        return
    if len(resolver._scopes_stack) != 1:
        ctx.count("scope_not_restored_delegated_to_C07")
    if handler_docs and ctx.counters.get("cases", 0) % 2 == 0:
        # a resolver told not to keep what it retrieves (cache_remote=False) designates the same schemas
        st2, l2, _ = run_S(d, S, store, handler_docs, inst, retrieved_from=info.get("retrieved_from"), cache_remote=False)
        ctx.count("cases_with_a_resolver_that_keeps_nothing")
        if st2 != "ok" or l2 != l0:
            ctx.violation("locations-differ" if st2 == "ok" else "resolvable-reference-failed", dict(case, cache_remote=False),
                          "with cache_remote=False: %s %r; inlined %r" % (st2, (l2 or [])[:3], l0[:3]), mech=mech)
            return
    # transparency also holds on a validator that has been used before: after validate() raised (the exception
    # still referenced) and after is_valid(), the same validator must give the same locations again
    if l0 and info.get("refs"):
        cls = impl.CLS[d]
        V = cls(S, resolver=make_resolver(d, S, store, handler_docs, info.get("retrieved_from")))
        kept = None
        try:
            try:
                V.validate(inst)
            except X.ValidationError as e:
                kept = e
            V.is_valid(inst)
            again = locs(V.iter_errors(inst))
            ctx.count("reused_after_validate")
            if again != l0:
                ctx.violation("locations-differ-on-reused-validator", case,
                              "after validate() raised and is_valid() ran, the same validator gives %r, inlined %r" % (again[:3], l0[:3]), mech=mech)
                return
        except X.RefResolutionError as e:
            ctx.violation("resolvable-reference-failed", case, "on the validator's second use: RefResolutionError %s" % str(e)[:100], mech=mech)
            return
        except Exception:
            ctx.count("reused_validator_exception_delegated")
        del kept
    # ... and on a validator whose first attempt failed because a document could not be fetched THEN: once the handler
    # can serve it, the references behave as the schemas they designate (a failure is not an answer to remember)
    if handler_docs and info.get("refs", 1):
        state = {"fail": True}

        def flaky(url):
            if state["fail"]:
                raise OSError("vf: temporarily unavailable")
            return handler_docs[url.split("#")[0]]
        cls = impl.CLS[d]
        if info.get("retrieved_from") is not None:
            Rv = RefResolver(info["retrieved_from"], S, store=dict(store), handlers={"vf": flaky})
        else:
            Rv = RefResolver.from_schema(S, id_of=cls.ID_OF, store=dict(store), handlers={"vf": flaky})
        V = cls(S, resolver=Rv)
        try:
            first = "ok"
            try:
                list(V.iter_errors(inst))
            except X.RefResolutionError:
                first = "RefResolutionError"
            state["fail"] = False
            again = locs(V.iter_errors(inst))
            ctx.count("reused_after_failed_retrieval" if first != "ok" else "flaky_handler_not_reached")
            if again != l0:
                ctx.violation("locations-differ-after-a-failed-retrieval", case,
                              "first attempt: %s (handler unavailable); second attempt on the same validator gives %r, inlined %r" % (first, again[:3], l0[:3]), mech=mech)
                return
        except X.RefResolutionError as e:
            ctx.violation("resolvable-reference-failed", case, "after an earlier failed retrieval, with the handler working again: %s" % str(e)[:100], mech=mech)
            return
        except Exception:
            ctx.count("reused_validator_exception_delegated")
    if model:
        docs = dict(store)
        docs.update(handler_docs)
        try:
            want = M.Model(d, S, store=docs).valid(inst)
            lo = M.Model(d, S, store=docs, eq=__import__("vf.model.equal", fromlist=["loose"]).loose).valid(inst)
        except (M.OutOfDomain, RecursionError):
            ctx.count("model_out_of_domain")
            return
        if want != lo:
            return
        ctx.count("model_crosschecks")
        if want != (not l):
            ctx.violation("verdict-vs-model", case, "implementation %s, model with own URI resolution %s" % (
                "valid" if not l else "invalid", "valid" if want else "invalid"), mech=mech)


def selfcheck(ctx, arr):
    docs = dict(arr.store)
    docs.update(arr.handler_docs)
    try:
        inl = R.inline(arr.draft, arr.schema, docs=docs, budget=12)
    except R.InlineError as e:
        ctx.count("transform_selfcheck_failed")
        ctx.notes.setdefault("selfcheck_failures", []).append({"error": str(e), "case": arr.as_case()})
        return False
    if R.strip_inert(arr.draft, inl) != R.strip_inert(arr.draft, arr.s0):
        ctx.count("transform_selfcheck_failed")
        if len(ctx.notes.setdefault("selfcheck_failures", [])) < 3:
            ctx.notes["selfcheck_failures"].append({"error": "inline(S) != S0", "case": arr.as_case()})
        return False
    ctx.count("transform_selfcheck_ok")
    return True


def hostile_core(ctx, rr):
    """Every hostile definition name x encoding style x base arrangement x draft."""
    idx = 0
    for d in impl.DRAFTS:
        idk = impl.IDKW[d]
        for name in R.HOSTILE_NAMES + ["~0~1", "%7E", "a%2Fb", " ", "\t", "'", "&", "=", "+", "@", ":", ";", ",", "!", "*", "(", ")", "$", "[", "]", "{", "}", "|", "^", "`", "<", ">"]:
            for style in range(3):
                for arrangement in ("noid", "rootid", "rootid#", "nested-abs"):
                    idx += 1
                    if not ctx.mine(idx):
                        continue
                    toks = ["definitions", name]
                    frag = [U.fragment_for(toks), U.fragment_for(toks, non_ascii_raw=True),
                            U.fragment_for(toks, extra=set("adefinitions01~"))][style]
                    target = {"type": "integer"}
                    other = {"type": "string"}
                    defs = {name: target}
                    for o in ("", "x", name + "x", "~" + name, name.replace("~", "~0")):
                        defs.setdefault(o, other)
                    if arrangement == "noid":
                        S = {"definitions": defs, "properties": {"p": {"$ref": "#" + frag}}}
                    elif arrangement == "rootid":
                        S = {idk: R.ROOT_URL, "definitions": defs, "properties": {"p": {"$ref": "#" + frag}}}
                    elif arrangement == "rootid#":
                        S = {idk: R.ROOT_URL + "#", "definitions": defs, "properties": {"p": {"$ref": "root.json#" + frag}}}
                    else:
                        S = {idk: R.ROOT_URL, "definitions": defs,
                             "properties": {"p": {idk: "http://other.example/x/", "items": {"$ref": R.ROOT_URL + "#" + frag}}}}
                    if arrangement == "nested-abs":
                        S0 = {"properties": {"p": {"items": target}}}
                        insts = [{"p": [1]}, {"p": ["s"]}, {"p": [1, "s", 2]}]
                    else:
                        S0 = {"properties": {"p": target}}
                        insts = [{"p": 1}, {"p": "s"}]
                    for inst in insts:
                        ctx.count("hostile_name_resolutions")
                        compare(ctx, d, S, S0, {}, {}, inst, {"core": "hostile-name", "name": name, "style": style,
                                                             "arrangement": arrangement}, model=(style == 0))


def known_probes(ctx):
    """Arrangements that are in the property's domain and are known to fail
    (recorded findings).  The mechanism is decided by construction."""
    for d in impl.DRAFTS:
        idk = impl.IDKW[d]
        for rid in ("urn:example:root", "tag:example.org,2020:root", "vf://handler.example/root.json"):
            S = {idk: rid, "definitions": {"a": {"type": "integer"}}, "properties": {"p": {"$ref": "#/definitions/a"}}}
            S0 = {"properties": {"p": {"type": "integer"}}}
            for inst in ({"p": 1}, {"p": "s"}):
                ctx.count("probe_nonhierarchical_base")
                compare(ctx, d, S, S0, {}, {}, inst, {"probe": "non-hierarchical root id"}, mech=NONHIER_MECH, model=False)
        S = {idk: R.ROOT_URL, "definitions": {"a": {"type": "integer"}},
             "properties": {"p": {idk: "http://other.example/dir/", "$ref": "#/definitions/a"}}}
        S0 = {"properties": {"p": {"type": "integer"}}}
        for inst in ({"p": 1}, {"p": "s"}):
            ctx.count("probe_own_id_next_to_ref")
            compare(ctx, d, S, S0, {}, {}, inst, {"probe": "own id keyword next to $ref"}, mech=OWN_ID_MECH, model=False)


def retrieval_uri_cases(ctx):
    """The resolver is told where the document was retrieved from, and that is not the root's id: the base in effect in
    the root document is the root id resolved against the retrieval URI (RFC 3986 5.1.1 over 5.1.3).  References with a
    path part; a decoy document sits where the reference would lead if the root id were not applied."""
    INT, STR = {"type": "integer"}, {"type": "string"}
    for d in impl.DRAFTS:
        idk = impl.IDKW[d]
        both = "extends" if d == 3 else "allOf"
        plans = [
            # (retrieved from, root id, reference, URL of the target, URL of the decoy)
            ("http://example.com/schemas/", "v2/root.json", "defs.json#/definitions/num", "http://example.com/schemas/v2/defs.json", "http://example.com/schemas/defs.json"),
            ("http://example.com/schemas/start.json", "v2/root.json", "defs.json#/definitions/num", "http://example.com/schemas/v2/defs.json", "http://example.com/schemas/defs.json"),
            ("http://mirror.example/checkout/root.json", "http://example.com/api/root.json", "types.json#/definitions/num", "http://example.com/api/types.json", "http://mirror.example/checkout/types.json"),
            ("http://mirror.example/a/b/root.json", "/abs/root.json", "../defs.json#/definitions/num", "http://mirror.example/defs.json", "http://mirror.example/a/defs.json"),
            ("http://example.com/schemas/", "v2/", "defs.json#/definitions/num", "http://example.com/schemas/v2/defs.json", "http://example.com/schemas/defs.json"),
        ]
        for retrieved, rid, ref, target, decoy in plans:
            store = {target: {"definitions": {"num": INT}}, decoy: {"definitions": {"num": STR}}}
            shapes = [{"properties": {"n": {"$ref": ref}}}, {"items": {"$ref": ref}}, {both: [{"$ref": ref}]},
                      {"additionalProperties": {"$ref": ref}, "properties": {"m": {"items": [{"$ref": ref}]}}}]
            for shape in shapes:
                S = dict({idk: rid}, **shape)
                try:
                    S0 = R.inline(d, S, dict(store), base=retrieved)
                except R.InlineError:
                    ctx.count("transform_selfcheck_failed")
                    continue
                for inst in ({"n": "x"}, {"n": 3}, [1, "s"], 5, "s", {"m": ["q"], "z": 1}, {"z": "s"}):
                    ctx.count("retrieval_uri_cases")
                    compare(ctx, d, S, S0, store, {}, inst, {"probe": "retrieval URI differs from the root id", "retrieved_from": retrieved, "refs": 1},
                            model=False)


def id_collision_cases(ctx):
    """A document served by a handler that DECLARES the id of another document (the root's, a stored one's): it is the
    document at the URL it was fetched from and nothing else - references to the other URL keep designating the other
    document, whichever is resolved first."""
    INT, STR, ARR = {"type": "integer"}, {"type": "string"}, {"type": "array"}
    for d in impl.DRAFTS:
        idk = impl.IDKW[d]
        other = "$id" if idk == "id" else "id"
        S_URL = R.STORE_DIR + "kept.json"
        for claim_kw in (idk, other):
            for claimed in (R.ROOT_URL, R.ROOT_URL + "#", S_URL):
                evil = {claim_kw: claimed, "definitions": {"x": ARR}, "type": "object"}
                hdocs = {R.HANDLER_DIR + "evil.json": evil}
                store = {S_URL: {"definitions": {"x": STR}, "type": "string"}}
                for order in (("h", "l", "s", "s2"), ("l", "h", "s", "s2"), ("s", "h", "l", "s2"), ("h", "s2", "l", "s")):
                    props = {"h": {"$ref": R.HANDLER_DIR + "evil.json"}, "l": {"$ref": "#/definitions/x"},
                             "s": {"$ref": S_URL + "#/definitions/x"}, "s2": {"items": {"$ref": S_URL}}}
                    S = {idk: R.ROOT_URL, "definitions": {"x": INT}, "properties": {k: props[k] for k in order}}
                    docs = dict(store)
                    docs.update(hdocs)
                    try:
                        S0 = R.inline(d, S, dict(docs))
                    except R.InlineError:
                        ctx.count("transform_selfcheck_failed")
                        continue
                    for inst in ({"h": {}, "l": "s", "s": 1, "s2": [1]}, {"h": 1, "l": 1, "s": "s", "s2": ["s"]}, {"l": []}, {"h": {}, "s": []}):
                        ctx.count("id_collision_cases")
                        compare(ctx, d, S, S0, store, hdocs, inst, {"probe": "fetched document declares another document's id", "refs": 1}, model=False)


def near_identical_urls(ctx):
    """Two documents whose URLs differ only in the case of the path, a query string, a trailing slash or an escape are
    two documents: a reference to one is the schema written in THAT one."""
    pairs = [("Item.json", "item.json"), ("t.json?n=1", "t.json?n=2"), ("dir/", "dir"), ("a%41.json", "aA.json"),
             ("x.json", "X.JSON"), ("q.json?A=1", "q.json?a=1"), ("e%2fa.json", "e%2Fa.json")]
    leaves = [({"type": "integer"}, {"type": "string"}), ({"maxLength": 1}, {"minLength": 3}), ({"enum": [1]}, {"enum": ["s"]})]
    insts = [{"a": 1, "b": 1}, {"a": "s", "b": "s"}, {"c": 1, "d": "s"}, {"c": "s", "d": 1}, {"b": 1}, {"d": "s", "a": "sss"}]
    for d in impl.DRAFTS:
        idk = impl.IDKW[d]
        for (pa, pb) in pairs:
            for (la, lb) in leaves:
                for where in ("store", "handler", "mixed"):
                    for flip in (False, True):
                        base = R.STORE_DIR if where != "handler" else R.HANDLER_DIR
                        base_b = R.HANDLER_DIR if where == "mixed" else base
                        ua, ub = base + "pairs/" + pa, base_b + "pairs/" + pb
                        da = dict(la, definitions={"x": lb})
                        db = dict(lb, definitions={"x": la})
                        docs = {ua: da, ub: db}
                        store = {u: v for u, v in docs.items() if u.startswith(R.STORE_DIR)}
                        hdocs = {u: v for u, v in docs.items() if u.startswith(R.HANDLER_DIR)}
                        props = [("a", {"$ref": ua}), ("b", {"$ref": ub}), ("c", {"$ref": ua + "#/definitions/x"}),
                                 ("d", {"$ref": ub + "#/definitions/x"})]
                        if flip:
                            props.reverse()
                        S = {idk: R.ROOT_URL, "properties": dict(props)}
                        try:
                            S0 = R.inline(d, S, dict(docs))
                        except R.InlineError:
                            ctx.count("transform_selfcheck_failed")
                            continue
                        for inst in insts:
                            ctx.count("near_identical_url_cases")
                            compare(ctx, d, S, S0, store, hdocs, inst, {"probe": "near-identical urls", "pair": [pa, pb], "where": where},
                                    model=False)


def same_string_chains(ctx):
    """A chain of references that passes through several documents, every one of which spells ITS reference the same way
    ("#/definitions/main" in each document; "next.json" relative to each document's own directory): the same text means
    a different schema at every hop, and the chain ends at the last one's."""
    leaves = [{"type": "integer"}, {"maxLength": 1}, {"enum": [1, "ab"]}, {"type": "array", "maxItems": 1}]
    insts = [{"a": 1}, {"a": "s"}, {"a": "sss"}, {"a": [1, 2]}, {"a": "ab", "b": 2}, {"a": None}, {}, {"b": "ab"}]
    for d in impl.DRAFTS:
        idk = impl.IDKW[d]
        hold = (lambda r: {"extends": [r]}) if d == 3 else (lambda r: {"allOf": [r]})
        for leaf in leaves:
            for hops in (1, 2, 3):
                # (documents under the harness's private handler scheme cannot hold relative or fragment-only references:
                #  urllib does not join under schemes it does not know - recorded finding F12 - so the chains live in the store)
                for where in ("store",):
                    for wrap_hops in (False, True):
                        base = R.STORE_DIR
                        variants = []
                        # (1) "#/definitions/main" in every document
                        urls = [base + "chain/main%d.json" % k for k in range(hops)]
                        docs = {}
                        for k, u in enumerate(urls):
                            nxt = {"$ref": urls[k + 1]} if k + 1 < hops else leaf
                            r = {"$ref": "#/definitions/main"}
                            docs[u] = dict(hold(r) if wrap_hops else r, definitions={"main": nxt})
                        S = {idk: R.ROOT_URL, "properties": {"a": {"$ref": "#/definitions/main"}, "b": leaf}, "definitions": {"main": {"$ref": urls[0]}}}
                        variants.append(("same-pointer", S, docs))
                        # (2) "next.json", relative to each document's own (declared) location
                        docs2 = {}
                        for k in range(hops):
                            here = base + "chain/d%d/next.json" % k
                            if k + 1 < hops:
                                docs2[here] = dict(hold({"$ref": "next.json"}), **{idk: base + "chain/d%d/self.json" % (k + 1)})
                            else:
                                docs2[here] = leaf
                        S2 = {idk: base + "chain/d0/root.json", "properties": {"a": hold({"$ref": "next.json"}) if wrap_hops else {"$ref": "next.json"}, "b": leaf}}
                        variants.append(("same-relative-name", S2, docs2))
                        for name, Sx, dx in variants:
                            store = {u: v for u, v in dx.items() if u.startswith(R.STORE_DIR)}
                            hdocs = {u: v for u, v in dx.items() if u.startswith(R.HANDLER_DIR)}
                            try:
                                S0 = R.inline(d, Sx, dict(dx))
                            except R.InlineError:
                                ctx.count("transform_selfcheck_failed")
                                continue
                            for inst in insts:
                                ctx.count("same_string_chain_cases")
                                compare(ctx, d, Sx, S0, store, hdocs, inst, {"probe": "same reference text at every hop", "variant": name, "hops": hops, "where": where},
                                        model=False)


def configured_validators(ctx):
    """What the validator was configured with (a format checker, the deprecated types= argument) applies on the far side of
    a reference exactly as on the near side: the schema with the targets written in place, under the same configuration,
    is the yardstick."""
    import warnings
    import jsonschema
    fc = jsonschema.FormatChecker(formats=())
    fc.checks("vf-even")(lambda v: not isinstance(v, str) or len(v) % 2 == 0)
    insts = [{"a": "x"}, {"a": "xy"}, {"b": "x"}, {"c": ["x", "xy", 5]}, {"a": 5, "b": 5}, {"a": "x", "b": "xyz", "c": ["xyz"]}, {"c": [5, None]}, {}]
    for d in impl.DRAFTS:
        cls = impl.CLS[d]
        idk = impl.IDKW[d]
        for leaf in ({"format": "vf-even"}, {"type": "string"}, {"type": "string", "format": "vf-even"}, {"items": {"format": "vf-even"}, "type": ["array", "string"]}):
            for conf in ("format_checker", "types", "both"):
                kw = {}
                if conf in ("format_checker", "both"):
                    kw["format_checker"] = fc
                if conf in ("types", "both"):
                    kw["types"] = {"string": (str, int)}
                docs = {R.STORE_DIR + "conf.json": {"definitions": {"f": leaf, "g": {"$ref": "#/definitions/f"}}}}
                hdocs = {R.HANDLER_DIR + "conf.json": {"definitions": {"f": leaf}}}
                S = {idk: R.ROOT_URL, "definitions": {"f": leaf},
                     "properties": {"a": {"$ref": "#/definitions/f"}, "b": {"$ref": R.STORE_DIR + "conf.json#/definitions/g"},
                                    "c": {"items": {"$ref": R.HANDLER_DIR + "conf.json#/definitions/f"}}}}
                S0 = {"properties": {"a": leaf, "b": leaf, "c": {"items": leaf}}}
                for inst in insts:
                    ctx.count("configured_validator_cases")
                    case = {"draft": d, "schema": S, "s0": S0, "store": docs, "handler_docs": hdocs, "instance": inst, "info": {"probe": "configured validator", "configuration": conf}}
                    try:
                        with warnings.catch_warnings():
                            warnings.simplefilter("ignore")
                            want = locs(cls(S0, **kw).iter_errors(inst))
                            got = locs(cls(S, resolver=make_resolver(d, S, docs, hdocs), **kw).iter_errors(inst))
                    except Exception as e:
                        ctx.violation("resolvable-reference-failed", case, "%s: %s" % (type(e).__name__, str(e)[:100]))
                        continue
                    ctx.case([d, S, inst, conf], nontrivial=bool(want))
                    if got != want:
                        ctx.violation("locations-differ", case, "validator configured with %s: error locations with references %r, inlined %r" % (conf, got[:3], want[:3]))


def recursive_part(ctx, rng, n):
    for i in range(n):
        d = impl.DRAFTS[i % 4]
        g = SchemaGen(rng, d, maxdepth=1)
        leaf = g.keyword_schema(rng.choice(["type", "minimum", "maxLength", "enum", "pattern", "maxItems"]))
        ig = InstGen(rng, leaf)
        for name, S, store in R.recursive_templates(rng, d, leaf):
            if name == "metaschema":
                insts = [{"s": SchemaGen(rng, d, maxdepth=2).schema()}, {"s": {"type": 5}}, {"s": {"properties": {"a": {"minimum": "x"}}}},
                         {"s": {"items": [{"maxLength": -1}]}}]
                store = {}
            else:
                insts = [R.recursive_instance(rng, lambda: ig.any(1), rng.choice([2, 3, 4])) for _ in range(3)]
            sib = name != "metaschema" and rng.random() < 0.5
            if sib:
                # asserting keywords next to every reference (incl. the empty reference): ignored, as the drafts say
                S = R.with_ref_siblings(rng, d, S)
                store = {u: R.with_ref_siblings(rng, d, doc) for u, doc in store.items()}
            for inst in insts:
                if sib:
                    ctx.count("recursive_with_asserting_siblings")
                depth = R.depth_of(inst)
                docs = dict(store)
                if name == "metaschema":
                    from vf import selftest
                    docs.update(selftest.meta_store())
                try:
                    S0 = R.unfold_for(d, S, docs, [inst])
                except R.InlineError as e:
                    ctx.count("transform_selfcheck_failed")
                    continue
                ctx.count("recursive_cases")
                ctx.count("recursive:" + name)
                if depth >= 3:
                    ctx.count("recursion_depth3plus")
                compare(ctx, d, S, S0, store, {}, inst, {"template": name, "instance_depth": depth},
                        model=(name != "metaschema"))


def _strip_ids_only(d, S):
    idkw = impl.IDKW[d]
    if isinstance(S, list):
        return [_strip_ids_only(d, x) for x in S]
    if isinstance(S, dict):
        return {k: _strip_ids_only(d, v) for k, v in S.items() if k != idkw}
    return S


def run(ctx):
    impl.quiet()
    if ctx.shard == 0:
        from vf import selftest
        n, bad = selftest.calibrate_uri()
        if bad:
            raise RuntimeError("URI calibration failed: %r" % bad[:3])
        ctx.count("uri_calibration", n)
        n, bad, sk = selftest.calibrate_model()
        if bad:
            raise RuntimeError("model calibration failed: %r" % bad[:3])
        known_probes(ctx)
    if ctx.shard == 1 % ctx.nshards:
        near_identical_urls(ctx)
        same_string_chains(ctx)
        configured_validators(ctx)
    if ctx.shard == 2 % ctx.nshards:
        retrieval_uri_cases(ctx)
    if ctx.shard == 3 % ctx.nshards:
        id_collision_cases(ctx)
    slog = ScopeLog()
    slog.install()
    from vf.cliutil import Scratch
    from vf.obs import tripwire
    scratch = Scratch("vf_c02_")
    tripwire.allow_writes_under(scratch.dir)
    try:
        rr = random.Random(202)
        hostile_core(ctx, rr)
        rng = ctx.rng
        recursive_part(ctx, rng, ctx.scale(60, 800))
        for i in range(ctx.scale(4000, 30000)):
            d = impl.DRAFTS[i % 4]
            g = SchemaGen(rng, d, maxdepth=rng.choice([2, 3, 3]))
            s0 = g.schema()
            if not isinstance(s0, dict):
                continue
            try:
                if not impl.accepts(d, s0):
                    continue
            except Exception:
                continue
            arr = R.arrange(rng, d, s0)
            if arr is None:
                continue
            if not selfcheck(ctx, arr):
                continue
            try:
                if not impl.accepts(d, arr.schema):
                    ctx.count("arranged_schema_rejected")
                    continue
            except Exception:
                continue
            info = arr.info
            ctx.count("arrangements")
            ctx.count("mode:" + info["mode"])
            for p in info["placements"]:
                ctx.count("placement:" + p)
            ctx.count("chains", info["chains"])
            ctx.count("inner_store_refs", info.get("inner_store_refs", 0))
            ctx.count("siblings_next_to_ref", info.get("siblings", 0))
            ctx.count("foreign_id_keywords_on_path", info.get("foreign_id_keywords", 0))
            ctx.count("relative_id_in_store_doc", info.get("relative_id_in_store_doc", 0))
            ig = InstGen(rng, s0)
            batch = ig.batch(4)
            for k, inst in enumerate(batch):
                compare(ctx, d, arr.schema, arr.s0, arr.store, arr.handler_docs, inst, info, model=(k == 0))
            if not arr.store and not arr.handler_docs and i % 3 == 0:
                # references into the same document only: the command line (class given with --validator) is one more
                # entry point for them - its exit status is that of the schema with the targets written in place
                try:
                    want_ok = [not list(impl.CLS[d](arr.s0).iter_errors(x)) for x in batch[:2]]
                    code, err = scratch.run(d, arr.schema, batch[:2])
                    code0, _ = scratch.run(d, arr.s0, batch[:2])
                except (ValueError, TypeError, OverflowError, RecursionError):
                    ctx.count("cli_skipped_not_serialisable")
                else:
                    ctx.count("local_reference_arrangements_through_cli")
                    if code != code0 or (isinstance(code, int) and (code == 0) != all(want_ok)):
                        ctx.violation("cli-differs", {"draft": d, "schema": arr.schema, "s0": arr.s0, "store": {}, "handler_docs": {}, "instance": batch[0],
                                                      "info": info, "instances": batch[:2]},
                                      "command line: exit status %r with the references, %r with the targets written in place (stderr %r)" % (code, code0, err[:120]))
            if i % 301 == 0:
                ctx.sample(arr.as_case())
    finally:
        slog.uninstall()
        scratch.close()
    ctx.notes["max_scope_depth_shard%d" % ctx.shard] = slog.max_depth
    if ctx.shard == 0:
        ctx.count("max_scope_depth", slog.max_depth)
    ctx.count("scope_events", len(slog.events))


def replay(ctx, rec):
    impl.quiet()
    c = rec["case"]
    if c.get("info", {}).get("probe") == "configured validator":
        configured_validators(ctx)          # small and deterministic: the whole family again
        return
    if "instances" in c and c.get("info", {}).get("probe") is None and "cli" in str(rec.get("kind", "")):
        pass
    compare(ctx, c["draft"], c["schema"], c["s0"], c.get("store", {}), c.get("handler_docs", {}), c["instance"], c.get("info", {}))
