"""C04 - all entry points agree: is_valid, iter_errors, validate(), jsonschema.validate.

Monitor: cross-entry-point comparator on full fingerprints, plus
access-recording proxies that observe whether the instance was touched
before SchemaError was raised.
"""
import random

import jsonschema
from jsonschema import exceptions as X

from vf import impl
from vf.gen.instance import InstGen
from vf.gen.mutate import mutate_schema
from vf.gen.schema import SchemaGen
from vf.obs.fingerprint import closure, fp, fps

ID = "C04"
LEVEL = "exploration"
RULE = ("grammar schemas (biased to many simultaneous errors and anyOf/oneOf/type-union contexts) x schema-directed "
        "instances, and shape-mutated (invalid) schemas; four drafts x (explicit class | class chosen from $schema) x "
        "(with | without FormatChecker).  A case is (draft, schema, instance, configuration); non-trivial when the "
        "validation yields >= 1 error or the schema is invalid; distinct by canonical JSON.")
ASSUMPTIONS = ["relations are asserted only when no RefResolutionError/UnknownType occurs",
               "first-error order is compared within one process (same objects, same hash seed)"]
TRIPWIRE_EXPECTED = ("urlopen",)
REPORT_COUNTERS = ["cases", "reused_validator_sequences", "cases_with_2plus_errors", "cases_context_depth2", "invalid_schemas", "proxy_controls_touched",
                   "via_dollar_schema", "with_format_checker", "best_match_is_descendant", "best_match_is_toplevel"]


def shards(tier):
    return 8 if tier == "quick" else 16


def floors(tier):
    return {"cases": 20000, "cases_with_2plus_errors": 5000, "cases_context_depth2": 500, "invalid_schemas": 2000,
            "proxy_controls_touched": 500, "via_dollar_schema": 2000, "with_format_checker": 2000,
            "best_match_is_descendant": 500, "best_match_is_toplevel": 2000,
            "reused_validator_sequences": 1000, "root_reference_objects": 500, "one_reference_under_two_bases": 100, "calls_while_an_iteration_is_suspended": 250, "reused_over_same_class_instances": 1200,
            "fault_cases": 2000, "fault_after_first_error": 300, "fault_before_first_error": 300,
            "explicit_class_with_foreign_dollar_schema": 1000, "non_object_whole_schemas": 20, "cases_exotic_containers": 800, "repeats_after_a_failed_call": 40}


# ------------------------------------------------------------------ recording proxies

class Log(list):
    pass


def make_proxy(value, log):
    if isinstance(value, dict):
        return RecDict({k: make_proxy(v, log) for k, v in value.items()}, log)
    if isinstance(value, list):
        return RecList([make_proxy(v, log) for v in value], log)
    return value


def _rec(name):
    def method(self, *a, **k):
        self._log.append(name)
        return getattr(super(type(self), self), name)(*a, **k)
    method.__name__ = name
    return method


class RecDict(dict):
    def __init__(self, data, log):
        dict.__init__(self, data)
        self._log = log


class RecList(list):
    def __init__(self, data, log):
        list.__init__(self, data)
        self._log = log


for _n in ("__getitem__", "__iter__", "__len__", "__contains__", "items", "keys", "values", "get", "__repr__", "__eq__"):
    setattr(RecDict, _n, _rec(_n))
for _n in ("__getitem__", "__iter__", "__len__", "__contains__", "__repr__", "__eq__", "index", "count"):
    setattr(RecList, _n, _rec(_n))


# ------------------------------------------------------------------ helpers

def depth_of_context(e):
    return 0 if not e.context else 1 + max(depth_of_context(c) for c in e.context)


def run_ep(fn):
    """Returns ('ok', value) | ('error', exc) for documented exceptions; others propagate."""
    try:
        return "ok", fn()
    except (X.ValidationError, X.SchemaError) as e:
        return "error", e


class Cmp:
    def __init__(self, ctx):
        self.ctx = ctx
        self.fc = jsonschema.FormatChecker()

    def valid_schema_case(self, d, schema, inst, use_fc, via_schema_kw, wrap=None):
        ctx = self.ctx
        cls = impl.CLS[d]
        kw = {"format_checker": self.fc} if use_fc else {}
        case = {"draft": d, "schema": schema, "instance": inst, "format_checker": use_fc, "via_$schema": via_schema_kw, "instance_class": wrap}
        if wrap:
            # ONE object of another container class (defaultdict inserts on look-up, ...) handed to every entry point in
            # turn, as a caller would: what one entry point does to it is seen by the next
            from vf.gen.values import exotic
            inst = exotic(inst, wrap)
            ctx.count("cases_exotic_containers")
        try:
            errs = list(cls(schema, **kw).iter_errors(inst))
        except X.ValidationError as e:
            # iter_errors YIELDS validation errors; one that is raised out of it never reaches a caller who iterates
            ctx.violation("iter_errors-raised-a-validation-error", case, "iter_errors raised %s(%r) instead of yielding it" % (type(e).__name__, e.message[:80]))
            return
        except (X.RefResolutionError, X.UnknownType):
            ctx.count("skipped_documented_exception")
            return
        except Exception:
            ctx.count("skipped_exception_delegated_to_C03")
            return
        ctx.count("cases")
        ctx.case([d, schema, inst, use_fc, via_schema_kw], nontrivial=bool(errs))
        if use_fc:
            ctx.count("with_format_checker")
        if len(errs) >= 2:
            ctx.count("cases_with_2plus_errors")
        if errs and max(depth_of_context(e) for e in errs) >= 2:
            ctx.count("cases_context_depth2")
        F = fps(errs)
        try:
            # repeatability
            again = fps(cls(schema, **kw).iter_errors(inst))
            if again != F:
                ctx.violation("repeat", case, "a second iter_errors differs")
            v = cls(schema, **kw)
            iv = v.is_valid(inst)
            if iv != (not errs):
                ctx.violation("is_valid", case, "is_valid=%s but iter_errors yields %d errors" % (iv, len(errs)))
            if v.is_valid(inst) != iv:
                ctx.violation("repeat", case, "is_valid differs on repetition")
            # validate(): first error
            st, r = run_ep(lambda: cls(schema, **kw).validate(inst))
            if errs:
                first = next(iter(cls(schema, **kw).iter_errors(inst)))
                if st != "error":
                    ctx.violation("validate", case, "validate() raised nothing although %d errors" % len(errs))
                elif not isinstance(r, X.ValidationError) or fp(r) != fp(first):
                    ctx.violation("validate", case, "validate() raised %r, first error is %r" % (fp(r)[:4], fp(first)[:4]))
                elif fp(r) != fp(errs[0]):
                    ctx.violation("validate", case, "first error differs between two fresh iterations")
            elif st != "ok":
                ctx.violation("validate", case, "validate() raised %r on a valid instance" % (r,))
            # module-level validate: best_match
            if via_schema_kw:
                ctx.count("via_dollar_schema")
                st, r = run_ep(lambda: jsonschema.validate(inst, schema, **kw))
            else:
                st, r = run_ep(lambda: jsonschema.validate(inst, schema, cls=cls, **kw))
            if errs:
                best = X.best_match(cls(schema, **kw).iter_errors(inst))
                if st != "error" or not isinstance(r, X.ValidationError) or isinstance(r, X.SchemaError):
                    ctx.violation("module-validate", case, "module validate() raised %r although %d errors" % (r, len(errs)))
                else:
                    if fp(r) != fp(best):
                        ctx.violation("module-validate", case, "module validate() raised %r, best_match is %r" % (fp(r)[:4], fp(best)[:4]))
                    top = [fp(e) for e in errs]
                    if fp(r) in top:
                        ctx.count("best_match_is_toplevel")
                    else:
                        desc = [fp(e) for e in closure(errs) if not e.context]
                        if fp(r) in desc and not r.context:
                            ctx.count("best_match_is_descendant")
                        else:
                            ctx.violation("module-validate", case, "raised error is neither a top-level error nor a context-free descendant")
                    st2, r2 = run_ep(lambda: jsonschema.validate(inst, schema, cls=cls, **kw))
                    if st2 != "error" or fp(r2) != fp(r):
                        ctx.violation("repeat", case, "module validate() differs on repetition / between cls and $schema dispatch")
            elif st != "ok":
                ctx.violation("module-validate", case, "module validate() raised %r on a valid instance" % (r,))
        except (X.RefResolutionError, X.UnknownType):
            ctx.count("skipped_documented_exception")
        except Exception as e:
            ctx.violation("entry-point-exception", case, "%s: %s (iter_errors itself finished normally)" % (type(e).__name__, str(e)[:150]))

    def fault_case(self, d, schema, inst, tag, fc=None):
        """Evaluations that end in an exception which is not a validation error (dangling reference, unknown type name,
        a custom format function raising an undeclared exception), possibly AFTER some errors were yielded: what the
        lazily consumed iter_errors does first is what is_valid and validate() must do too."""
        ctx = self.ctx
        cls = impl.CLS[d]
        kw = {"format_checker": fc} if fc is not None else {}
        case = {"draft": d, "schema": schema, "instance": inst, "fault": tag}

        def outcome(fn):
            try:
                return ("value", fn())
            except X.ValidationError as e:
                return ("ValidationError", fp(e))
            except Exception as e:
                return ("exc", type(e).__name__)

        def first():
            for e in cls(schema, **kw).iter_errors(inst):
                raise e
            return None
        o_first = outcome(first)
        o_all = outcome(lambda: len(list(cls(schema, **kw).iter_errors(inst))))
        if o_all[0] != "exc":
            ctx.count("fault_cases_without_fault")
            return
        ctx.count("fault_cases")
        ctx.case([d, schema, inst, "fault"], nontrivial=True)
        o_validate = outcome(lambda: cls(schema, **kw).validate(inst))
        o_valid = outcome(lambda: cls(schema, **kw).is_valid(inst))
        if o_first[0] == "ValidationError":
            ctx.count("fault_after_first_error")
            if o_validate != o_first:
                ctx.violation("validate", case, "iter_errors yields %r first (and fails later with %s); validate() gave %r" % (
                    o_first[1][:4], o_all[1], o_validate[:2]))
            if o_valid != ("value", False):
                ctx.violation("is_valid", case, "iter_errors yields an error first; is_valid gave %r" % (o_valid,))
        else:
            ctx.count("fault_before_first_error")
            if o_validate != o_first or o_valid != o_first:
                ctx.violation("fault-agreement", case, "iter_errors fails with %r before yielding; validate() %r, is_valid %r" % (
                    o_first, o_validate, o_valid))

    def invalid_schema_case(self, d, schema, inst, via_schema_kw):
        ctx = self.ctx
        cls = impl.CLS[d]
        case = {"draft": d, "schema": schema, "instance": inst, "via_$schema": via_schema_kw, "invalid_schema": True}
        try:
            metaerrs = cls(cls.META_SCHEMA).iter_errors(schema)
            first = next(metaerrs, None)
        except Exception:
            ctx.count("skipped_exception_delegated_to_C11")
            return
        if first is None:
            return False
        ctx.count("invalid_schemas")
        ctx.case([d, schema, "invalid"], nontrivial=True)
        log = Log()
        proxy = make_proxy(inst, log)
        try:
            if via_schema_kw:
                jsonschema.validate(proxy, schema)
            else:
                jsonschema.validate(proxy, schema, cls=cls)
            ctx.violation("schema-error-missing", case, "module validate() raised nothing for a schema check_schema rejects")
            return True
        except X.SchemaError as e:
            if log:
                ctx.violation("instance-touched-before-SchemaError", case, "accesses: %r" % (list(log)[:8],))
            if fp(e) != fp(first):
                ctx.violation("schema-error-fields", case, "SchemaError %r differs from first metaschema violation %r" % (fp(e)[:4], fp(first)[:4]))
            if e.instance is not first.instance and e.instance != first.instance:
                ctx.violation("schema-error-fields", case, "instance field differs")
            if e.schema != first.schema or e.validator_value != first.validator_value or e.validator != first.validator:
                ctx.violation("schema-error-fields", case, "schema / validator_value / validator differ")
            try:
                cls.check_schema(schema)
                ctx.violation("check_schema", case, "check_schema returned normally")
            except X.SchemaError as e2:
                if fp(e2) != fp(e):
                    ctx.violation("repeat", case, "check_schema and validate() raise different SchemaErrors")
        except X.ValidationError as e:
            ctx.violation("schema-error-type", case, "raised ValidationError %r instead of SchemaError" % (e.message[:80],))
        except Exception as e:
            ctx.violation("schema-error-type", case, "raised %s instead of SchemaError" % type(e).__name__)
        return True

    def proxy_control(self, d, schema, inst):
        """On a valid schema the proxy must see accesses (proves the proxy observes)."""
        if not isinstance(inst, (dict, list)) or not inst:
            return
        log = Log()
        proxy = make_proxy(inst, log)
        try:
            jsonschema.validate(proxy, schema, cls=impl.CLS[d])
        except Exception:
            pass
        if log:
            self.ctx.count("proxy_controls_touched")


def reused_validator_sequence(ctx, d, arr, insts):
    """"Repeating any call yields identical results" also holds on ONE validator object that is used through all
    its entry points in turn (is_valid and validate stop at the first error and abandon the iteration)."""
    from jsonschema import RefResolver
    cls = impl.CLS[d]

    def make():
        def handler(url):
            return arr.handler_docs[url.split("#")[0]]
        return cls(arr.schema, resolver=RefResolver.from_schema(arr.schema, id_of=cls.ID_OF, store=dict(arr.store),
                                                                handlers={"vf": handler}))
    try:
        fresh = {}
        for k, inst in enumerate(insts):
            fresh[k] = fps(make().iter_errors(inst))
    except Exception:
        ctx.count("skipped_exception_delegated_to_C03")
        return
    V = make()
    case = {"draft": d, "schema": arr.schema, "store": arr.store, "handler_docs": arr.handler_docs, "instances": insts,
            "reused_validator": True}
    ctx.count("reused_validator_sequences")
    ctx.case([d, arr.schema, arr.store, insts, "reused"], nontrivial=any(fresh.values()))
    for rnd in range(2):
        for k, inst in enumerate(insts):
            want = fresh[k]
            try:
                iv = V.is_valid(inst)
                st, r = run_ep(lambda: V.validate(inst))
                errs = fps(V.iter_errors(inst))
                iv2 = V.is_valid(inst)
            except (X.RefResolutionError, X.UnknownType) as e:
                ctx.violation("reused-validator-disagrees", dict(case, step=[rnd, k]),
                              "%s on the reused validator; a fresh validator yields %d error(s)" % (type(e).__name__, len(want)))
                return
            except Exception as e:
                ctx.violation("entry-point-exception", dict(case, step=[rnd, k]), "%s: %s" % (type(e).__name__, str(e)[:120]))
                return
            if errs != want or iv != (not want) or iv2 != iv or (st == "error") != bool(want):
                ctx.violation("reused-validator-disagrees", dict(case, step=[rnd, k]),
                              "on a validator already used through is_valid/validate: is_valid=%s/%s validate=%s iter_errors=%d error(s); "
                              "a fresh validator yields %d" % (iv, iv2, st, len(errs), len(want)))
                return


def while_an_iteration_is_suspended(ctx):
    """The entry points agree with each other (and with a fresh validator) also while an earlier iter_errors() of the same
    validator is suspended mid-way - for schemas whose references all stay inside the one document (no nested identifiers,
    no other documents: nothing a suspended iteration holds can be relevant to another call)."""
    import jsonschema
    T = {"type": "integer"}
    shapes = [
        ({"properties": {"a": {"$ref": "#/definitions/t"}, "b": {"$ref": "#/definitions/t"}}, "definitions": {"t": T}},
         [{"a": "x"}, {"a": "x", "b": "y"}, {"b": None, "a": None}, {"a": 1, "b": "y"}, {"a": 1}]),
        ({"items": {"$ref": "#/definitions/t"}, "definitions": {"t": {"type": "integer", "enum": [1, 2]}}},
         [["x"], ["x", "y"], [None, None], [1, "x"], [3], [1, 2]]),
        ({"$ref": "#/definitions/t", "definitions": {"t": {"type": "object", "properties": {"n": {"$ref": "#/definitions/t"}, "v": T}}}},
         [{"v": "x"}, {"n": {"v": "x"}}, {"n": {"n": {"v": None}}, "v": None}, 5, {"v": 1}]),
        ({"properties": {"a": {"items": {"$ref": "#"}}, "v": T}},
         [{"v": "x"}, {"a": [{"v": "x"}]}, {"a": [{"v": None}, {"v": None}], "v": None}, {"a": [{"a": [{"v": "s"}]}]}, {"v": 2}]),
        ({"additionalProperties": {"$ref": "#/definitions/t"}, "definitions": {"t": {"type": "string", "maxLength": 1}}},
         [{"k": 1}, {"k": 1, "l": 2}, {"k": "toolong", "l": "toolong"}, {"k": "s"}]),
    ]
    n = 0
    for d in impl.DRAFTS:
        cls = impl.CLS[d]
        for schema, insts in shapes:
            for inst in insts:
                for take in (1, 2):
                    for other in [inst] + [x for x in insts if x is not inst][:2]:
                        n += 1
                        if not ctx.mine(n):
                            continue
                        want_inst = fps(cls(schema).iter_errors(inst))
                        want_other = fps(cls(schema).iter_errors(other))
                        V = cls(schema)
                        it = V.iter_errors(inst)
                        taken = []
                        for _ in range(take):
                            try:
                                taken.append(next(it))
                            except StopIteration:
                                break
                        if len(taken) < take:
                            continue          # nothing is suspended: the iteration is over
                        case = {"draft": d, "schema": schema, "instance": other, "suspended_over": inst, "errors_taken": take, "suspended_iteration": True}
                        ctx.count("calls_while_an_iteration_is_suspended")
                        ctx.case([d, schema, inst, other, take, "suspended"], nontrivial=bool(want_other))
                        try:
                            iv = V.is_valid(other)
                            st, r = run_ep(lambda: V.validate(other))
                            errs = fps(V.iter_errors(other))
                            stm, rm = run_ep(lambda: jsonschema.validate(other, schema, cls=cls))
                            rest = list(it)
                        except Exception as e:
                            ctx.violation("entry-point-exception", case, "%s: %s" % (type(e).__name__, str(e)[:120]))
                            continue
                        if errs != want_other or iv != (not want_other) or (st == "error") != bool(want_other) or (stm == "error") != bool(want_other):
                            ctx.violation("suspended-iteration-changes-results", case,
                                          "while an iteration over %r is suspended after %d error(s): is_valid=%s validate=%s iter_errors=%d error(s) "
                                          "module validate=%s; a fresh validator yields %d error(s)" % (inst, take, iv, st, len(errs), stm, len(want_other)))
                            continue
                        if fps(taken + rest) != want_inst:
                            ctx.violation("suspended-iteration-changes-results", case, "the suspended iteration, resumed after the other calls, yields %d error(s) in all; "
                                          "uninterrupted it yields %d" % (len(taken) + len(rest), len(want_inst)))


def reused_over_same_class_instances(ctx):
    """One validator asked about instances of ONE Python class whose answers differ by VALUE (3.0 is an integer for drafts
    6/7, 3.5 is not; 1 and True; "" and "x"; [] and [1]): every answer is the fresh validator's, in any order."""
    import types
    seqs = [[3.0, 3.5, 3.0, 4.5, 1e300, -0.0, 2.5, 7.0], [3.5, 3.0, 3.5], [1, True, 0, False, 1], [True, 1, 2], ["", "x", "xy", ""], [[], [1], [1, 1], []],
            [{}, {"a": 1}, {"a": 1.5}, {"a": 2.0}], [2.0, 2, 2.5, True], [None, 0, 0.0, "0"]]
    schemas = [{"type": "integer"}, {"type": ["integer", "null"]}, {"items": {"type": "integer"}}, {"properties": {"a": {"type": "integer"}}},
               {"type": "number"}, {"type": "boolean"}, {"type": ["boolean", "string"]}, {"enum": [1, "x", [1]]}, {"minLength": 1}, {"maxItems": 1, "uniqueItems": True},
               {"type": "integer", "minimum": 3}, {"additionalProperties": {"type": "integer"}}, {"type": ["array", "integer"], "items": {"type": "integer"}}]
    n = 0
    for d in impl.DRAFTS:
        for S in schemas:
            for seq in seqs:
                n += 1
                if not ctx.mine(n):
                    continue
                variants = [seq, seq[::-1], [[x] for x in seq], [{"a": x} for x in seq]]
                for insts in variants:
                    ctx.count("reused_over_same_class_instances")
                    reused_validator_sequence(ctx, d, types.SimpleNamespace(schema=S, store={}, handler_docs={}), list(insts))


def same_reference_under_two_bases(ctx):
    """One reference string standing under two different base URIs in one schema designates two different schemas; instances
    that visit only one of the places, in either order, on one validator object and through the module-level function."""
    import types
    n = 0
    for d in impl.DRAFTS:
        idk = "id" if d <= 4 else "$id"
        for ref, docs in (("item.json", lambda base, t: {base + "item.json": {"type": t}}),
                          ("item.json#/definitions/t", lambda base, t: {base + "item.json": {"definitions": {"t": {"type": t}}}}),
                          ("#/definitions/t", lambda base, t: {base: {"definitions": {"t": {"type": t}}}}),
                          ("../shared.json", lambda base, t: {base.rsplit("/", 2)[0] + "/shared.json": {"type": "number" if t == "integer" else t}}),
                          ("sub/x.json#", lambda base, t: {base + "sub/x.json": {"type": t}})):
            for holder in ("items", "additionalProperties", "wrapped"):
                for ba, bb in (("http://vf.example/c04/a/", "http://vf.example/c04/b/"), ("http://vf.example/c04/a/", "http://other.example/a/"),
                               ("http://vf.example/c04/deep/a/", "http://vf.example/c04/other/b/")):
                    n += 1
                    if not ctx.mine(n):
                        continue
                    R = {"$ref": ref}
                    inner = {"items": R} if holder == "items" else {"additionalProperties": R} if holder == "additionalProperties" else {"allOf": [{"items": R}]}
                    schema = {idk: "http://vf.example/c04/root.json",
                              "properties": {"a": dict(inner, **{idk: ba}), "b": dict(inner, **{idk: bb})}}
                    store = {}
                    store.update(docs(ba, "integer"))
                    store.update(docs(bb, "string"))
                    if len(store) < 2:
                        continue
                    mk = (lambda v: [v]) if holder != "additionalProperties" else (lambda v: {"k": v})
                    insts = [{"a": mk(1)}, {"b": mk("x")}, {"b": mk(1)}, {"a": mk("x")}, {"a": mk(1), "b": mk("x")}, {"b": mk(1), "a": mk(1)}, {}]
                    ctx.count("one_reference_under_two_bases")
                    for order in (insts, insts[::-1]):
                        reused_validator_sequence(ctx, d, types.SimpleNamespace(schema=schema, store=store, handler_docs={}), list(order))


DIALECT_SENSITIVE = [{"exclusiveMinimum": 5, "minimum": 1}, {"exclusiveMinimum": True, "minimum": 1}, {"required": ["a"]}, {"required": True},
                     {"items": True}, {"properties": {"a": False}}, {"type": "any"}, {"divisibleBy": 2}, {"const": 1, "contains": {}},
                     {"dependencies": {"a": "b"}}, {"dependencies": {"a": ["b"]}}, {"extends": {"type": "string"}}, {"disallow": "string"},
                     {"propertyNames": {"maxLength": 1}}, {"if": {"type": "integer"}, "then": {"minimum": 3}}, {"additionalItems": 5}, {"enum": []}]


def foreign_dollar_schema(ctx, C, rng, d, schema, insts):
    """An EXPLICIT class together with a `$schema` that names another draft (or nothing known): the explicit class and
    ITS metaschema decide - for the schema check as well as for validation."""
    cls = impl.CLS[d]
    others = [impl.META_ID[o] for o in impl.DRAFTS if o != d]
    for base in (schema, rng.choice(DIALECT_SENSITIVE), rng.choice(DIALECT_SENSITIVE)):
        tagged = dict(base)
        tagged["$schema"] = rng.choice(others + [o.rstrip("#") for o in others] + ["http://vf.example/unknown-dialect#"])
        try:
            bad = next(cls(cls.META_SCHEMA).iter_errors(tagged), None) is not None
        except Exception:
            continue
        ctx.count("explicit_class_with_foreign_dollar_schema")
        if bad:
            C.invalid_schema_case(d, tagged, insts[0] if isinstance(insts[0], (dict, list)) else {"a": [1, {"b": 2}]}, False)
        else:
            for inst in insts[:2] + [{"a": 1}, 5]:
                C.valid_schema_case(d, tagged, inst, use_fc=False, via_schema_kw=False)


class _Boom(LookupError):
    pass


def _boom(value):
    raise _Boom("vf: undeclared exception from a custom format function")


def fault_variants(ctx, C, rng, d, schema, insts):
    """`schema` next to / before / after something whose evaluation raises a non-validation exception."""
    faults = [("dangling-ref", {"$ref": "#/definitions/vf-missing"}), ("unknown-type", {"type": "vf-unknown-type"}),
              ("unknown-host", {"$ref": "vfnone://nowhere.invalid/x.json"})]
    fc = jsonschema.FormatChecker(formats=())
    fc.checks("vf-boom")(_boom)
    faults.append(("format-function-raises", {"format": "vf-boom"}))
    tag, F = rng.choice(faults)
    use_fc = fc if tag == "format-function-raises" else None
    both = "allOf" if d >= 4 else "extends"
    for inst in insts[:2]:
        shapes = [({both: [schema, F]}, inst), ({both: [F, schema]}, inst),
                  ({"items": [schema, F]}, [inst, "vf"]), ({"items": [F, schema]}, ["vf", inst]),
                  ({"properties": {"a": schema, "b": F}}, {"a": inst, "b": "vf"}),
                  ({"properties": {"b": F, "a": schema}}, {"b": "vf", "a": inst}),
                  ({"properties": {"a": schema, "b": F}}, {"b": "vf", "a": inst})]
        if isinstance(schema, dict) and "$ref" not in schema:
            k, v = next(iter(F.items()))
            if k not in schema:
                shapes.append((dict(schema, **{k: v}), inst))
                shapes.append((dict({k: v}, **schema), inst))
        for S, I in rng.sample(shapes, 3):
            C.fault_case(d, S, I, tag, fc=use_fc)


def biased(rng, d):
    g = SchemaGen(rng, d, maxdepth=rng.choice([1, 2, 3]))
    s = g.schema()
    if isinstance(s, dict) and rng.random() < 0.5:
        # context trees: anyOf / oneOf / type unions nested in each other
        if d == 3:
            s["type"] = [g.sub(0), {"type": [g.sub(1), "null"]}, "boolean"]
        else:
            s[rng.choice(["anyOf", "oneOf"])] = [g.sub(0), {rng.choice(["anyOf", "oneOf"]): [g.sub(1), g.sub(1)]}, g.sub(0)]
    if isinstance(s, dict) and rng.random() < 0.2:
        s["format"] = rng.choice(["date", "ipv4", "regex", "email", "unknown"])
    return s


def after_a_failed_call(ctx):
    """Repeating a call gives identical results - also when, in between, another call on the same validator ended in an
    exception (an id that cannot be made a base URI, an unresolvable reference, an unknown type)."""
    for d in impl.DRAFTS:
        idk = impl.IDKW[d]
        for root_id in (None, "http://vf.example/c04/root.json", "sub/root.json"):
            for name, trap in (("unparseable-nested-id", {idk: "http://[", "type": "integer"}), ("dangling-ref", {"$ref": "#/definitions/vf-missing"}),
                               ("unknown-type", {"type": "vf-unknown"}), ("nested-id-then-dangling-ref", {idk: "inner/", "items": {"$ref": "nowhere.json"}})):
                S = {"properties": {"trap": trap, "ok": {"type": "string"}, "deep": {idk: "d/", "items": {"type": "null"}}}, "required": ["zz"] if d != 3 else []}
                if d == 3:
                    S.pop("required")
                if root_id:
                    S[idk] = root_id
                v = impl.CLS[d](S)
                probes = [{"ok": 1, "deep": [1, None]}, {"ok": "s"}, {"deep": [None]}, 5]

                def look():
                    out = []
                    for p_ in probes:
                        try:
                            out.append(("errors", fps(v.iter_errors(p_)), v.is_valid(p_)))
                        except Exception as e:
                            out.append(("exc", type(e).__name__))
                    return out
                before = look()
                for inst in ({"trap": [1]}, {"trap": 1, "ok": 2}):
                    for call in (lambda: v.is_valid(inst), lambda: list(v.iter_errors(inst)), lambda: v.validate(inst)):
                        try:
                            call()
                        except Exception:
                            pass
                after = look()
                ctx.count("repeats_after_a_failed_call")
                ctx.case([d, name, root_id, "after-failed-call"], nontrivial=True)
                if after != before:
                    k = next(i for i, (a, b) in enumerate(zip(before, after)) if a != b)
                    ctx.violation("repeat", {"draft": d, "schema": S, "instance": probes[k], "after_a_failed_call": name},
                                  "the same call on the same validator gave %r before and %r after another call on it failed" % (str(before[k])[:150], str(after[k])[:150]))


def run(ctx):
    impl.quiet()
    C = Cmp(ctx)
    if ctx.shard == 1 % ctx.nshards:
        after_a_failed_call(ctx)
    same_reference_under_two_bases(ctx)
    while_an_iteration_is_suspended(ctx)
    reused_over_same_class_instances(ctx)
    # whole schemas that are neither objects nor booleans, given to module-level validate() WITHOUT a class (the latest
    # draft is chosen) and with every explicit class: SchemaError before the instance is looked at
    if ctx.shard == 0:
        for schema in ([], [{}], [True], "s", "", 5, 0, 1.5, None, [[]], ["type"], "http://json-schema.org/draft-04/schema#"):
            for inst in ({"a": [1, {"b": 2}]}, [1, 2]):
                ctx.count("non_object_whole_schemas")
                C.invalid_schema_case(7, schema, inst, True)
                for d in impl.DRAFTS:
                    C.invalid_schema_case(d, schema, inst, False)
    rng = ctx.rng
    n = ctx.scale(1600, 20000)
    for i in range(n):
        d = impl.DRAFTS[i % 4]
        schema = biased(rng, d)
        try:
            ok = impl.accepts(d, schema)
        except Exception:
            continue
        if not ok:
            continue
        if isinstance(schema, dict) and rng.random() < 0.12:
            # the schema object itself is a reference object with sibling keywords (ignored by every entry point alike)
            sib = rng.choice([("type", "null"), ("type", "string"), ("enum", ["__never__"]), ("minimum", 10 ** 6), ("maxLength", 0),
                              ("required", ["__never__"]) if d != 3 else ("maxItems", 0), ("items", {"type": "null"}), ("pattern", "^$")])
            schema = {"definitions": {"r": schema}, "$ref": "#/definitions/r", sib[0]: sib[1]}
            if rng.random() < 0.5:
                schema = dict(reversed(list(schema.items())))
            ctx.count("root_reference_objects")
        via = isinstance(schema, dict) and rng.random() < 0.35
        if via:
            schema = dict(schema)
            schema["$schema"] = impl.META_ID[d] if rng.random() < 0.5 else impl.META_ID[d].rstrip("#")
        ig = InstGen(rng, schema)
        insts = ig.batch(4)
        for inst in insts:
            C.valid_schema_case(d, schema, inst, use_fc=rng.random() < 0.3, via_schema_kw=via)
        if i % 3 == 0:
            from vf.gen.values import EXOTIC_KINDS
            for j, inst in enumerate(insts[:2]):
                C.valid_schema_case(d, schema, inst, use_fc=False, via_schema_kw=via, wrap="defaultdict" if j == 0 else EXOTIC_KINDS[1 + i % 3])
        if i % 2 == 0:
            fault_variants(ctx, C, rng, d, schema, insts)
        if i % 3 == 1 and isinstance(schema, dict) and not via:
            foreign_dollar_schema(ctx, C, rng, d, schema, insts)
        C.proxy_control(d, schema, insts[0])
        if i % 3 == 0 and isinstance(schema, dict) and not via:
            from vf.gen import refs as R
            arr = R.arrange(rng, d, schema)
            if arr is not None and R.arrangement_ok(arr):
                reused_validator_sequence(ctx, d, arr, insts)
        # invalid variants of the same schema
        for _ in range(2):
            bad, where = mutate_schema(rng, d, schema, n=rng.choice([1, 1, 2]))
            if via and isinstance(bad, dict):
                bad = dict(bad)
                bad["$schema"] = impl.META_ID[d]
            viab = via and isinstance(bad, dict) and bad.get("$schema") == impl.META_ID[d]
            C.invalid_schema_case(d, bad, insts[0] if isinstance(insts[0], (dict, list)) else {"a": [1, {"b": 2}]}, viab)
        if i % 301 == 0:
            ctx.sample({"draft": d, "schema": schema, "instance": insts[0]})


def replay(ctx, rec):
    impl.quiet()
    c = rec["case"]
    C = Cmp(ctx)
    if c.get("after_a_failed_call"):
        after_a_failed_call(ctx)
        return
    if c.get("suspended_iteration"):
        while_an_iteration_is_suspended(ctx)      # small and deterministic: the whole family again
        return
    if c.get("fault"):
        fc = None
        if c["fault"] == "format-function-raises":
            fc = jsonschema.FormatChecker(formats=())
            fc.checks("vf-boom")(_boom)
        C.fault_case(c["draft"], c["schema"], c["instance"], c["fault"], fc=fc)
    elif c.get("invalid_schema"):
        C.invalid_schema_case(c["draft"], c["schema"], c["instance"], c.get("via_$schema", False))
    else:
        C.valid_schema_case(c["draft"], c["schema"], c["instance"], c.get("format_checker", False), c.get("via_$schema", False), wrap=c.get("instance_class"))
