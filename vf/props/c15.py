"""C15 - reference retrieval and caching are transparent, frugal and offline-safe.

Monitor: event-log checker over counting handlers and a patched urlopen
(+ audit-hook tripwire), store-key snapshots, and cross-configuration
equality of results: one history is replayed under {cache_remote on, off} x
{default lru caches, pass-through cache functions, lru_cache(1) that evicts}.
"""
import json
import random
import sys
from functools import lru_cache
from urllib.parse import urljoin

from jsonschema import RefResolver
from jsonschema import exceptions as X

from vf import impl
from vf.gen import refs as R
from vf.gen.instance import InstGen
from vf.gen.schema import SchemaGen
from vf.obs import tripwire
from vf.obs.fingerprint import fps
from vf.util import jdump

ID = "C15"
LEVEL = "fault_enumeration"
RULE = ("histories (3-12 operations: validations of several instances, direct resolve / resolve_from_url / resolving) "
        "over schemas referring to 1-4 handler-served documents through 1-5 distinct fragments each via URL spellings "
        "that normalise to one key (u, u#, u#/...), to documents supplied in store=, and to the bundled metaschemas "
        "(with/without '#', with pointer fragments) with NO http handler installed; replayed under 2 x 3 cache "
        "configurations and handler fault plans {ok, fail once, fail always} x exception types {KeyError, OSError, "
        "ValueError, custom Exception, ZeroDivisionError}.  A case is one (history, fault plan) replayed under all six "
        "configurations; every case is non-trivial; distinct by canonical JSON.")
ASSUMPTIONS = ["fault plans are limited to those whose outcome cannot legitimately depend on the number of fetches (ok, "
               "first call fails, every call fails)",
               "the harness blocks and records every urlopen / socket event itself; nothing relies on the sandbox being offline"]
REPORT_COUNTERS = ["histories", "configs_run", "operations", "handler_calls", "handler_successes", "handler_failures",
                   "plan:ok", "plan:fail_once", "plan:fail_always", "docs_with_3plus_fragments", "metaschema_refs_resolved",
                   "store_doc_refs_resolved", "evictions_observed", "wrapped_as_RefResolutionError"]
TRIPWIRE_EXPECTED = ("urlopen", "urlopen-served")     # violations are decided in-worker from these events
URLOPEN_DIR = "vfu://urlopen.example/lib/"
REQUESTS_DIR = "http://requests.example/lib/"     # http(s) without a handler goes through `requests` when importable


class CustomErr(Exception):
    pass


EXC = [KeyError, OSError, ValueError, CustomErr, ZeroDivisionError, RuntimeError, TypeError, AttributeError, LookupError]
CONFIGS = [(cr, cache) for cr in (True, False) for cache in ("default", "passthrough", "tiny")]


def shards(tier):
    return 8 if tier == "quick" else 16


def floors(tier):
    return {"histories": 1500, "configs_run": 9000, "operations": 50000, "handler_successes": 5000, "handler_failures": 1000,
            "plan:ok": 300, "plan:fail_once": 300, "plan:fail_always": 300, "docs_with_3plus_fragments": 500,
            "metaschema_refs_resolved": 2000, "store_doc_refs_resolved": 2000, "evictions_observed": 200,
            "wrapped_as_RefResolutionError": 1000, "handler_docs_declaring_an_id": 500, "near_identical_url_pairs": 500, "documents_via_urlopen_transport": 300, "documents_via_requests_transport": 300, "fetched_documents_referring_into_themselves": 200, "transport_failed_first": 100, "direct_retrievals": 300, "scheme_table_changes": 8,
            "direct_resolutions_content_checked": 5000}


def make_world(rng, d):
    """Schema with references to handler docs (several fragments each), store docs and metaschemas."""
    idk = impl.IDKW[d]
    g = SchemaGen(rng, d, maxdepth=1)
    ndocs = rng.randrange(1, 5)
    hdocs = {}
    props = {}
    refs = []
    frag3 = 0
    declared_ids = 0
    distinct_pairs = 0
    for k in range(ndocs):
        url = R.HANDLER_DIR + "d%d.json" % k
        defs = {}
        nfr = rng.randrange(1, 6)
        for j in range(nfr):
            defs["f%d" % j] = g.keyword_schema(rng.choice(["type", "minimum", "maxLength", "enum"]))
        hdocs[url] = {"definitions": defs, "type": rng.choice(["object", "array", "string", "integer"])}
        # a retrieved document may declare an id of its own - its own URL, another document's URL, a store
        # document's, a metaschema's, or an unrelated one; that must not change what any URL designates
        r = rng.random()
        if r < 0.5:
            hdocs[url][idk] = rng.choice([url, R.HANDLER_DIR + "d%d.json" % ((k + 1) % ndocs), R.HANDLER_DIR + "d0.json",
                                          "http://store.example/lib/s0.json", "http://store.example/lib/s1.json",
                                          "http://json-schema.org/draft-0%d/schema#" % d, "http://elsewhere.example/x.json",
                                          "d%d.json" % ((k + 1) % ndocs), "../lib/d0.json"])
            declared_ids += 1
        if nfr >= 3:
            frag3 += 1
        spellings = [url, url + "#"] + [url + "#/definitions/f%d" % j for j in range(nfr)]
        for n, sp in enumerate(rng.sample(spellings, min(len(spellings), rng.randrange(2, 6)))):
            props["h%d_%d" % (k, n)] = {"$ref": sp}
            refs.append(sp)
    # pairs of URLs that differ only in letter case of the path, in the query, in a trailing slash or in an
    # (un)escaped character designate DIFFERENT documents
    if rng.random() < 0.5:
        a, b = rng.choice([("Item.json", "item.json"), ("t.json?n=1", "t.json?n=2"), ("dir/", "dir"), ("a%41.json", "aA.json"),
                           ("x.json?a=1&b=2", "x.json?b=2&a=1"), ("UP/x.json", "up/x.json")])
        # (a trailing '?' with an empty query is dropped by urllib's normalisation just like a trailing '#': not claimed either way)
        for name, typ in ((a, "integer"), (b, "string")):
            url = R.HANDLER_DIR + "pairs/" + name
            hdocs[url] = {"definitions": {"f0": {"type": typ}}, "type": typ}
            for sp in (url, url + "#/definitions/f0"):
                props["u%d" % len(props)] = {"$ref": sp}
                refs.append(sp)
        distinct_pairs += 1
    # documents reachable only through the library's urllib fallback (no handler for the scheme; the harness
    # answers the patched urlopen itself and counts the calls)
    udocs = {}
    transport_fails_first = False
    if rng.random() < 0.5:
        prefix = rng.choice([URLOPEN_DIR, REQUESTS_DIR])
        transport_fails_first = rng.random() < 0.25
        for k in range(rng.randrange(1, 3)):
            url = prefix + "u%d.json" % k
            udocs[url] = {"definitions": {"f0": g.keyword_schema("type"), "f1": g.keyword_schema("enum")}, "type": rng.choice(["object", "integer"])}
            inner = []
            if prefix == REQUESTS_DIR:
                # (the http documents live under a scheme urllib joins under, so they can refer into themselves and to their
                #  neighbours relatively - whether or not the resolver keeps what it fetched; the private schemes cannot: F12)
                udocs[url]["definitions"].update({"g": {"$ref": "#/definitions/f0"}, "n": {"$ref": "u0.json#/definitions/f1"},
                                                  "w": {"items": {"$ref": "#/definitions/g"}}})
                inner = rng.sample([url + "#/definitions/g", url + "#/definitions/n", url + "#/definitions/w"], 2)
            for sp in rng.sample([url, url + "#", url + "#/definitions/f0", url + "#/definitions/f1"], 3 if not inner else 2) + inner:
                props["o%d" % len(props)] = {"$ref": sp}
                refs.append(sp)
    store = {}
    for k in range(rng.randrange(0, 3)):
        url = "http://store.example/lib/s%d.json" % k
        # the caller may hand the document over under a spelling with an empty fragment ({doc[id]: doc})
        store[url + "#" if rng.random() < 0.4 else url] = {"definitions": {"a": g.keyword_schema("type")}, "type": "object"}
        # (a scheme is case-insensitive: 'HTTP://...' names the stored document too - and reading it stores nothing)
        for sp in rng.sample([url, url + "#", url + "#/definitions/a", url.replace("http://", "HTTP://"), url.replace("http://", "Http://") + "#/definitions/a"], 3):
            props["s%d_%d" % (k, len(props))] = {"$ref": sp}
            refs.append(sp)
    metas = []
    compatible = {3: [3], 4: [4], 6: [6, 4], 7: [7, 6, 4]}[d]
    for dd in rng.sample(compatible, rng.randrange(1, min(2, len(compatible)) + 1)):
        base = "http://json-schema.org/draft-0%d/schema" % dd
        frag = {3: "#/properties/minItems", 4: "#/definitions/positiveInteger", 6: "#/definitions/nonNegativeInteger",
                7: "#/definitions/simpleTypes"}[dd]
        for sp in rng.sample([base, base + "#", base + frag, base + "#/properties/title", base.replace("http://", "HTTP://")], 2):
            props["m%d_%d" % (dd, len(props))] = {"$ref": sp}
            refs.append(sp)
            metas.append(sp)
    names = list(props)
    rng.shuffle(names)
    S = {"properties": {n: props[n] for n in names}}
    if rng.random() < 0.5:
        S[idk] = R.ROOT_URL
    insts = []
    for _ in range(3):
        inst = {}
        for n in names:
            if rng.random() < 0.6:
                inst[n] = rng.choice([1, "s", {}, [], None, 2.5, {"type": "string"}, "object", -1])
        insts.append(inst)
    return dict(d=d, schema=S, hdocs=hdocs, store=store, refs=refs, instances=insts, frag3=frag3, metas=metas,
                declared_ids=declared_ids, distinct_pairs=distinct_pairs, udocs=udocs,
                transport_fails_first=transport_fails_first)


def gen_history(rng, w):
    ops = []
    for _ in range(rng.randrange(3, 13)):
        r = rng.random()
        if r < 0.08 and (w["hdocs"] or w.get("udocs")):
            # warming the resolver: the documented direct entry point ("does not check the store first, but after
            # retrieving the document ... it will be saved in the store if cache_remote is True")
            ops.append({"op": "warm", "ref": rng.choice(sorted(w["hdocs"]) + sorted(w.get("udocs") or {}))})
        elif r < 0.55:
            ops.append({"op": "validate", "i": rng.randrange(len(w["instances"]))})
        elif r < 0.75:
            ops.append({"op": "resolve", "ref": rng.choice(w["refs"])})
        elif r < 0.9:
            ops.append({"op": "resolve_from_url", "ref": rng.choice(w["refs"])})
        else:
            ops.append({"op": "resolving", "ref": rng.choice(w["refs"])})
    return ops


def gen_plan(rng, w):
    plan = {}
    for url in w["hdocs"]:
        mode = rng.choice(["ok", "ok", "fail_once", "fail_always"])
        plan[url] = {"mode": mode, "exc": rng.randrange(len(EXC))}
    return plan


class Handler:
    def __init__(self, w, plan):
        self.w = w
        self.plan = plan
        self.calls = []      # (doc url, outcome)
        self.n = {}

    def __call__(self, url):
        doc = url.split("#")[0]
        k = self.n.get(doc, 0)
        self.n[doc] = k + 1
        p = self.plan.get(doc, {"mode": "ok", "exc": 0})
        if p["mode"] == "fail_always" or (p["mode"] == "fail_once" and k == 0):
            self.calls.append((doc, "fail"))
            raise EXC[p["exc"]]("handler fault for %s" % doc)
        self.calls.append((doc, "ok"))
        return self.w["hdocs"][doc]


def run_config(w, ops, plan, cache_remote, cache):
    d = w["d"]
    cls = impl.CLS[d]
    h = Handler(w, plan)
    box = []
    kw = {}
    if cache == "passthrough":
        kw = dict(urljoin_cache=urljoin, remote_cache=lambda url: box[0].resolve_from_url(url))
    elif cache == "tiny":
        kw = dict(urljoin_cache=lru_cache(1)(urljoin), remote_cache=lru_cache(1)(lambda url: box[0].resolve_from_url(url)))
    resolver = RefResolver.from_schema(w["schema"], id_of=cls.ID_OF, store=dict(w["store"]), cache_remote=cache_remote,
                                       handlers={"vf": h}, **kw)
    box.append(resolver)
    v = cls(w["schema"], resolver=resolver)
    ucalls = []
    tripwire.unserve_all()
    fake_requests = None
    if w.get("udocs"):
        attempts = []

        def serve(url, w=w, ucalls=ucalls):
            doc = url.split("#")[0]
            attempts.append(doc)
            if w.get("transport_fails_first") and len(attempts) == 1:
                raise OSError("vf: transport failure (injected)")
            ucalls.append(doc)
            return json.dumps(w["udocs"][doc]).encode("utf-8")
        tripwire.serve(URLOPEN_DIR, serve)
        if any(u.startswith(REQUESTS_DIR) for u in w["udocs"]):
            class _Resp:
                def __init__(self, data):
                    self._data = data

                def json(self):
                    return json.loads(self._data.decode("utf-8"))

            class _FakeRequests:
                __name__ = "requests"

                @staticmethod
                def get(uri, *a, **k):
                    if not str(uri).startswith(REQUESTS_DIR) or str(uri).split("#")[0] not in w["udocs"]:
                        raise OSError("vf: no such host (fake requests)")
                    return _Resp(serve(str(uri)))
            fake_requests = _FakeRequests()
            sys.modules["requests"] = fake_requests
    keys0 = set(resolver.store)
    net0 = tripwire.count("urlopen") + tripwire.count("socket.connect") + tripwire.count("socket.getaddrinfo")
    results = []
    other_exc = []
    per_op = []
    for op in ops:
        c0, u0 = len(h.calls), len(ucalls)
        try:
            if op["op"] == "warm":
                try:
                    res = ("warmed", jdump(resolver.resolve_remote(op["ref"]))[:300])
                except Exception as e:
                    res = ("direct-retrieval-raised", type(e).__name__)      # resolve_remote itself does not wrap
            elif op["op"] == "validate":
                res = ("ok", fps(v.iter_errors(w["instances"][op["i"]])))
            elif op["op"] == "resolve":
                url, sub = resolver.resolve(op["ref"])
                res = ("ok", [url, jdump(sub)[:300]])
            elif op["op"] == "resolve_from_url":
                res = ("ok", jdump(resolver.resolve_from_url(op["ref"]))[:300])
            else:
                with resolver.resolving(op["ref"]) as sub:
                    res = ("ok", jdump(sub)[:300])
        except X.RefResolutionError as e:
            res = ("RefResolutionError", None)
        except Exception as e:
            res = ("exc:" + type(e).__name__, None)
            other_exc.append(type(e).__name__)
        results.append(res)
        per_op.append([op["op"], [list(c) for c in h.calls[c0:]] + [[u, "ok"] for u in ucalls[u0:]]])
    evicted = 0
    if cache == "tiny":
        info = resolver._remote_cache.cache_info()
        evicted = max(0, info.misses - 1)
    tripwire.unserve_all()
    if fake_requests is not None:
        sys.modules.pop("requests", None)
    net = [e for e in tripwire.events() if e["event"] in ("urlopen", "socket.connect", "socket.getaddrinfo")][net0:]
    return dict(results=results, calls=h.calls + [(u, "ok") for u in ucalls], keys0=keys0, keys1=set(resolver.store), net=net,
                other_exc=other_exc, evicted=evicted, depth=len(resolver._scopes_stack), per_op=per_op)


def check_history(ctx, w, ops, plan):
    case = {"draft": w["d"], "schema": w["schema"], "handler_docs": w["hdocs"], "urlopen_docs": w.get("udocs") or {}, "store": w["store"], "instances": w["instances"], "transport_fails_first": bool(w.get("transport_fails_first")),
            "history": ops, "plan": plan}
    ctx.count("histories")
    ctx.case(case)
    for p in plan.values():
        ctx.count("plan:" + p["mode"])
    ctx.count("docs_with_3plus_fragments", w["frag3"])
    ctx.count("handler_docs_declaring_an_id", w.get("declared_ids", 0))
    ctx.count("near_identical_url_pairs", w.get("distinct_pairs", 0))
    ctx.count("documents_via_urlopen_transport", sum(1 for u in (w.get("udocs") or {}) if u.startswith(URLOPEN_DIR)))
    ctx.count("documents_via_requests_transport", sum(1 for u in (w.get("udocs") or {}) if u.startswith(REQUESTS_DIR)))
    ctx.count("fetched_documents_referring_into_themselves", sum(1 for u, doc in (w.get("udocs") or {}).items() if "g" in doc.get("definitions", {})))
    if w.get("udocs") and w.get("transport_fails_first"):
        ctx.count("transport_failed_first")
    outs = {}
    for cr, cache in CONFIGS:
        ctx.count("configs_run")
        out = run_config(w, ops, plan, cr, cache)
        outs[(cr, cache)] = out
        cfg = {"cache_remote": cr, "caches": cache}
        ctx.count("operations", len(ops))
        ctx.count("handler_calls", len(out["calls"]))
        ok_calls = [doc for doc, o in out["calls"] if o == "ok"]
        ctx.count("handler_successes", len(ok_calls))
        ctx.count("handler_failures", len(out["calls"]) - len(ok_calls))
        ctx.count("evictions_observed", 1 if out["evicted"] > 0 else 0)
        ctx.count("wrapped_as_RefResolutionError", sum(1 for r in out["results"] if r[0] == "RefResolutionError"))
        if out["other_exc"]:
            ctx.violation("handler-failure-not-wrapped", dict(case, config=cfg),
                          "a handler failure surfaced as %r instead of RefResolutionError" % out["other_exc"][:3])
        if out["net"]:
            ctx.violation("retrieval-attempt", dict(case, config=cfg),
                          "network retrieval attempted for a bundled metaschema or a document supplied in store=: %r" % out["net"][:3])
        if cr:
            for doc in set(ok_calls):
                warmed, by_reference = False, 0
                for opname, calls in out["per_op"]:
                    for d_, o_ in calls:
                        if d_ != doc or o_ != "ok":
                            continue
                        if opname == "warm":
                            warmed = True
                            ctx.count("direct_retrievals")
                        else:
                            by_reference += 1
                            if warmed:
                                ctx.violation("fetched-again-after-direct-retrieval", dict(case, config=cfg),
                                              "%s was retrieved directly (resolve_remote) and then fetched again for a reference, with cache_remote=True" % doc)
                                by_reference = -10 ** 6
                if by_reference > 1:
                    ctx.violation("fetched-more-than-once", dict(case, config=cfg),
                                  "%s fetched successfully %d times for references by one resolver with cache_remote=True" % (doc, by_reference))
        else:
            if out["keys1"] != out["keys0"]:
                ctx.violation("store-grew-with-caching-off", dict(case, config=cfg),
                              "store gained %r" % sorted(out["keys1"] - out["keys0"])[:3])
    # what a direct resolution must return: the addressed part of the intended document (own pointer walk)
    from vf.model import uri as U
    alldocs = dict(w["hdocs"])
    alldocs.update(w.get("udocs") or {})
    for k_, v_ in w["store"].items():
        alldocs[k_.split("#")[0]] = v_
    for n_, op in enumerate(ops):
        if op["op"] == "validate" or not str(op.get("ref", "")).startswith(("vf:", "vfu:", "http://store.example", REQUESTS_DIR)):
            continue
        doc_url, frag = U.defrag(op["ref"])
        if doc_url not in alldocs:
            continue
        try:
            want = jdump(U.ptr_walk(alldocs[doc_url], frag))[:300]
        except U.PointerError:
            continue
        for cfg, out in outs.items():
            r = out["results"][n_]
            if r[0] not in ("ok", "warmed"):
                continue
            got = r[1][1] if op["op"] == "resolve" else r[1]
            ctx.count("direct_resolutions_content_checked")
            if got != want:
                ctx.violation("resolved-to-another-document", dict(case, config={"cache_remote": cfg[0], "caches": cfg[1]}, operation=n_),
                              "%s %r returned %s, the document at that URL has %s there" % (op["op"], op["ref"], got[:120], want[:120]))
                return
    base = outs[CONFIGS[0]]["results"]
    for cfg, out in outs.items():
        if out["results"] != base:
            k = next(i for i, (a, b) in enumerate(zip(out["results"], base)) if a != b)
            ctx.violation("results-differ-between-cache-configurations", dict(case, config={"cache_remote": cfg[0], "caches": cfg[1]}),
                          "operation %d: %r under (cache_remote=True, default) vs %r" % (k, str(base[k])[:200], str(out["results"][k])[:200]))
            break
    ctx.count("metaschema_refs_resolved", sum(1 for op in ops if op.get("ref") in w["metas"]) * len(CONFIGS))
    ctx.count("store_doc_refs_resolved", sum(1 for op in ops if str(op.get("ref", "")).startswith("http://store.example")) * len(CONFIGS))


def scheme_table_change(ctx):
    """The program teaches urllib a new hierarchical scheme (the well-known `uses_relative.append(...)` idiom) between
    two uses of the library: afterwards every cache configuration of a NEW resolver gives the same answers - nothing that
    an earlier, dead resolver worked out under the old tables may be served to the default configuration only."""
    import urllib.parse as UP
    for d in impl.DRAFTS:
        cls = impl.CLS[d]
        for n_, scheme in enumerate(("xq", "vf-x")):
            base = "%s://svc.example/lib/" % scheme
            docs = {base + "doc.json": {"properties": {"v": {"$ref": "other.json"}, "w": {"items": {"$ref": "sub/third.json#/definitions/t"}}}},
                    base + "other.json": {"type": "integer"}, base + "sub/third.json": {"definitions": {"t": {"type": "string"}}}}
            schema = {"properties": {"a": {"$ref": base + "doc.json"}}}
            insts = [{"a": {"v": "s"}}, {"a": {"v": 1, "w": [1, "s"]}}, {"a": {}}]

            def run_all(config):
                cr, cache = config
                box = []
                kw = {}
                if cache == "passthrough":
                    kw = dict(urljoin_cache=urljoin, remote_cache=lambda url: box[0].resolve_from_url(url))
                elif cache == "tiny":
                    kw = dict(urljoin_cache=lru_cache(1)(urljoin), remote_cache=lru_cache(1)(lambda url: box[0].resolve_from_url(url)))
                r = RefResolver.from_schema(schema, id_of=cls.ID_OF, cache_remote=cr, handlers={scheme: lambda u: docs[u.split("#")[0]]}, **kw)
                box.append(r)
                v = cls(schema, resolver=r)
                out = []
                for inst in insts:
                    try:
                        out.append(("ok", fps(v.iter_errors(inst))))
                    except X.RefResolutionError:
                        out.append(("RefResolutionError", None))
                    except Exception as e:
                        out.append(("exc:" + type(e).__name__, None))
                return out
            saved = (list(UP.uses_relative), list(UP.uses_netloc))
            try:
                before = run_all((True, "default"))           # under the old tables (its result is not judged)
                UP.uses_relative.append(scheme)
                UP.uses_netloc.append(scheme)
                outs = {cfg: run_all(cfg) for cfg in CONFIGS}
            finally:
                UP.uses_relative[:], UP.uses_netloc[:] = saved
            ctx.count("scheme_table_changes")
            ctx.case([d, scheme, "scheme-table-change"])
            base_out = outs[CONFIGS[1]]                      # (cache_remote=True, pass-through): no cache at all
            for cfg, out in outs.items():
                if out != base_out:
                    ctx.violation("results-differ-between-cache-configurations",
                                  {"draft": d, "schema": schema, "scheme": scheme, "config": {"cache_remote": cfg[0], "caches": cfg[1]},
                                   "scheme_table_change": True, "before_registration": str(before)[:200]},
                                  "after the scheme was registered with urllib, a new resolver with %r gives %s, one without caches %s" % (
                                      cfg, str(out)[:150], str(base_out)[:150]))
                    break


def run(ctx):
    impl.quiet()
    if ctx.shard == 0:
        scheme_table_change(ctx)
    rng = ctx.rng
    for i in range(ctx.scale(1000, 12000)):
        d = impl.DRAFTS[i % 4]
        w = make_world(rng, d)
        ops = gen_history(rng, w)
        plan = gen_plan(rng, w)
        check_history(ctx, w, ops, plan)
        if i % 97 == 0:
            ctx.sample({"draft": d, "schema": w["schema"], "history": ops, "plan": plan})


def replay(ctx, rec):
    impl.quiet()
    c = rec["case"]
    if c.get("scheme_table_change"):
        scheme_table_change(ctx)
        return
    w = dict(d=c["draft"], schema=c["schema"], hdocs=c["handler_docs"], store=c["store"], instances=c["instances"],
             refs=[], frag3=0, metas=[], udocs=c.get("urlopen_docs") or {}, transport_fails_first=c.get("transport_fails_first", False))
    check_history(ctx, w, c["history"], c["plan"])
