"""C13 - built-in format checkers decide their grammars exactly and never raise.

Monitor: reference-model comparator (own recognisers) + exception filter.
"""
import random
import re
import warnings

import jsonschema
from jsonschema.exceptions import FormatError

from vf import impl
from vf.model import formats as F

ID = "C13"
LEVEL = "exploration"
RULE = ("seeds (valid and invalid strings of each grammar) x ALL single-character insertions, deletions and "
        "substitutions over an alphabet of digits, hex letters, punctuation .:-+_%/[]@ , whitespace incl. \\n\\t, "
        "non-ASCII digits, T W Z; ISO 8601 alternatives; octet/group counts off by one; absurd regex repetition "
        "counts; seeded random Unicode strings and double edits.  Every string is offered to EVERY registered "
        "format name of FormatChecker() and of the four draft checkers (never-raises + boolean result); verdicts "
        "are compared with the own recogniser for ipv4/ip-address, ipv6, date, regex, email/idn-email.  A case is "
        "(format name, string); non-trivial when the string is non-empty; distinct by (name, string).")
ASSUMPTIONS = ["oracles: vf/model/formats.py, calibrated on the suite's optional/format files",
               "regex: the engine is the grammar (re.compile succeeds), per the property",
               "date with year 0000: never-raises only (RFC 3339 admits it, the proleptic calendar here starts at year 1)",
               "strings <= 200 code points (regex parser recursion is an interpreter limit)"]
REPORT_COUNTERS = ["conforms_calls", "compared", "accepted:ipv4", "rejected:ipv4", "accepted:ipv6", "rejected:ipv6",
                   "accepted:date", "rejected:date", "accepted:regex", "rejected:regex", "accepted:email",
                   "rejected:email", "never_raise_only:idn-hostname", "never_raise_only:time"]

ALPHABET = list("0123456789abcdefABCDEFxgG.:-+_%/[]@ \n\t\r(){}*?\\^$|,TWZz") + ["１", "١", "é", "\U0001d11e", "\x00", " "]

SEEDS = {
    "ipv4": ["1.2.3.4", "0.0.0.0", "255.255.255.255", "192.168.1.1", "10.0.0.256", "1.2.3", "1.2.3.4.5", "01.2.3.4",
             "1.2.3.04", "256.1.1.1", "1..3.4", "1.2.3.4 ", "0x7f.1.1.1", "127.1", "2130706433", "1.2.3.-4", "999.1.1.1",
             "00.0.0.0", "1.2.3.4/8", "١.2.3.4"],
    "ipv6": ["::", "::1", "1::", "1:2:3:4:5:6:7:8", "1:2:3:4:5:6:7::", "::2:3:4:5:6:7:8", "1:2:3:4:5:6:7", "1:2:3:4:5:6:7:8:9",
             "1::2::3", ":::", "::ffff:1.2.3.4", "1:2:3:4:5:6:1.2.3.4", "1:2:3:4:5:6:7:1.2.3.4", "::1.2.3.4",
             "1.2.3.4::", "1:2:3:4:5:1.2.3.4", "fe80::1%eth0", "fe80::1%1", "::1/128", "12345::", "abcd:EF01::", "g::1",
             "::ffff:1.2.3.256", "::ffff:01.2.3.4", "1:2:3:4::5:6:7", "1:2:3:4::5:6:7:8", ":1:2:3:4:5:6:7", "1:2:3:4:5:6:7:",
             "::1 ", "1::2:3:4:5:6:7", "0:0:0:0:0:0:0:0", "::ffff:1.2.3", "1:2::1.2.3.4", "1", "1.2.3.4"],
    "date": ["2020-01-01", "2020-02-29", "2019-02-29", "1900-02-29", "2000-02-29", "2020-12-31", "2020-13-01",
             "2020-00-10", "2020-04-31", "2020-06-30", "20200101", "2020-W01-1", "2020-001", "+2020-01-01",
             "2020-1-1", "2020-01-1", "020-01-01", "2020/01/01", "2020-01-01T00:00:00", "2020-01-01Z", "0000-01-01",
             "0001-01-01", "9999-12-31", "10000-01-01", "2020-01-32", "2020-02-30", "٢٠٢٠-٠١-٠١", "2020-01-01 ", "2020-W53-7",
             "2020-366", "--01-01", "2020-01"],
    "regex": ["a", "a*", "(a|b)+", "[a-z]", "a{2,3}", "a{3,2}", "(", ")", "[", "a**", "(?P<n>a)(?P=n)", "(?i)a", "a|(?i)b",
              "\\", "\\d+\\w", "a{99999999999}", "a{1,99999999999}", "(?<=a)b", "(?<=a*)b", "\\1", "(a)\\2", "[z-a]", "a{,}",
              "(?P<1>a)", "(?#c)", "(?", "*a", "+", "?", "a??", "a?+", "a{2}{3}", "\\N{DIGIT ONE}", "\\N{NOPE}", "\\x1",
              "\\u12", "\\U00110000", "[[:alpha:]]", "(?x) a # c", "\\Z", "\\z", "(?a:b)", "(?-i:a)", "(?i-i:a)",
              "(?(1)a|b)", "(a)(?(1)b|c)", "(?(2)a)", "a{4294967295}", "a{4294967296}", "(?P<n>a)(?P<n>b)"],
    "email": ["a@b", "a@", "@", "ab", "", "a@@b", "a b@c", "a＠b"],
    "idn-hostname": ["example.com", "xn--nxasmq6b", "a..b", "-a.com", "実例.com", "a" * 64 + ".com", ".", "", "xn--", "a_b.com",
                     "ß.de", "‍", "A.COM", "a.b.c." + "d" * 63, "\udc80" if False else "à", "١.com"],
    "huge-fields": ["2147483648:00:00", "99999999999999999999:00:00", "00:2147483648:00", "00:00:4294967296", "-1:00:00",
                    "1e5:00:00", "99999999999-01-01", "2020-99999999999-01", "2020-01-99999999999", "99999999999999.1.1.1",
                    "1.2.3.99999999999999999999", "99999999999::", "::99999999999", "1" * 100 + ":00:00", "9" * 150,
                    "0:0:0", "٢٣:٥٩:٥٩", "12:34:56\n", "4294967296:4294967296:4294967296"],
    "time": ["12:34:56", "24:00:00", "12:34", "12:34:56Z", "1:2:3", "12:60:00", "12:34:60", "12:34:61", "00:00:00", "١٢:٣٤:٥٦",
             "12:34:56.5", " 12:34:56", "12:34:56 ", "12-34-56", ""],
}


def shards(tier):
    return 8 if tier == "quick" else 16


def floors(tier):
    f = {"conforms_calls": 300000, "compared": 200000, "never_raise_only:idn-hostname": 5000,
         "never_raise_only:time": 5000, "calibration_strings": 50, "distinct_nontrivial": 30000, "formats_argument_kinds": 7}
    for n in ("ipv4", "ipv6", "date", "regex", "email"):
        f["accepted:" + n] = 500
        f["rejected:" + n] = 2000
    return f


def edits1(s, alphabet=ALPHABET):
    out = set()
    for i in range(len(s) + 1):
        for c in alphabet:
            out.add(s[:i] + c + s[i:])
    for i in range(len(s)):
        out.add(s[:i] + s[i + 1:])
        for c in alphabet:
            out.add(s[:i] + c + s[i + 1:])
        if i + 1 < len(s):
            out.add(s[:i] + s[i + 1] + s[i] + s[i + 2:])
    return out


class Monitor:
    def __init__(self, ctx):
        self.ctx = ctx
        self.checkers = {"FormatChecker()": jsonschema.FormatChecker()}
        for d in impl.DRAFTS:
            self.checkers["draft%d_format_checker" % d] = getattr(jsonschema, "draft%d_format_checker" % d)
        self.names = {k: sorted(c.checkers) for k, c in self.checkers.items()}
        # FormatChecker(formats=<iterable>): the documented argument is any iterable of names - handed over as a list, a
        # tuple, a set, dict keys, and as one-shot iterables (generator, iterator, map)
        allnames = sorted(jsonschema.FormatChecker.checkers)
        kinds = {"list": lambda: list(allnames), "tuple": lambda: tuple(allnames), "frozenset": lambda: frozenset(allnames),
                 "dict-keys": lambda: dict.fromkeys(allnames).keys(), "generator": lambda: (n for n in allnames),
                 "iterator": lambda: iter(allnames), "map": lambda: map(str, allnames)}
        for kind, mk in kinds.items():
            cname = "FormatChecker(formats=<%s>)" % kind
            try:
                chk = jsonschema.FormatChecker(formats=mk())
            except Exception as e:
                ctx.violation("formats-argument", {"checker": cname}, "%s: %s" % (type(e).__name__, str(e)[:100]))
                continue
            ctx.count("formats_argument_kinds")
            if sorted(chk.checkers) != allnames:
                ctx.violation("formats-argument", {"checker": cname, "format": None, "string": None},
                              "asked for %d names, the checker knows %r" % (len(allnames), sorted(chk.checkers)[:8]))
            self.checkers[cname] = chk
            self.names[cname] = allnames
        self.k = 0

    def feed(self, s):
        """Offer one string to every registered name."""
        if len(s) > 200:
            return
        self.k += 1
        which = ["FormatChecker()"]
        if self.k % 5 == 0:
            which = [c for c in self.checkers if "formats=" not in c]
        if self.k % 40 == 0:
            which = list(self.checkers)
        for cname in which:
            chk = self.checkers[cname]
            for name in self.names[cname]:
                self.one(cname, chk, name, s)

    def one(self, cname, chk, name, s):
        ctx = self.ctx
        case = {"checker": cname, "format": name, "string": s}
        ctx.case([name, s], nontrivial=bool(s))
        ctx.count("conforms_calls")
        try:
            with warnings.catch_warnings():
                warnings.simplefilter("ignore")
                got = chk.conforms(s, name)
        except Exception as e:
            ctx.violation("conforms-raised", case, "%s: %s" % (type(e).__name__, str(e)[:150]))
            return
        if got is not True and got is not False:
            ctx.violation("conforms-not-bool", case, "returned %r" % (got,))
            return
        # check() raises nothing but FormatError, and agrees with conforms
        try:
            with warnings.catch_warnings():
                warnings.simplefilter("ignore")
                chk.check(s, name)
            checked = True
        except FormatError:
            checked = False
        except Exception as e:
            ctx.violation("check-raised", case, "%s: %s" % (type(e).__name__, str(e)[:150]))
            return
        if checked != got:
            ctx.violation("check-conforms-disagree", case, "check says %s, conforms says %s" % (checked, got))
            return
        rec = F.RECOGNISERS.get(name)
        if rec is None:
            ctx.count("never_raise_only:" + name)
            return
        if name == "date" and F.date_year_zero(s):
            ctx.count("never_raise_only:date-year-0000")
            return
        try:
            want = rec(s)
        except Exception:
            want = False
        ctx.count("compared")
        key = {"ip-address": "ipv4", "idn-email": "email"}.get(name, name)
        ctx.count(("accepted:" if want else "rejected:") + key)
        if got != want:
            ctx.violation("grammar", case, "implementation %s, own recogniser %s" % (
                "accepts" if got else "rejects", "accepts" if want else "rejects"))


def run(ctx):
    impl.quiet()
    if ctx.shard == 0:
        n, bad = F.calibrate()
        ctx.count("calibration_strings", n - len(bad))
        ctx.notes["calibration"] = {"suite_strings": n, "mismatches": [list(map(str, b)) for b in bad[:5]]}
        if bad:
            raise RuntimeError("format recogniser calibration failed: %r" % bad[:3])
    M = Monitor(ctx)
    ctx.notes["registered"] = M.names
    idx = 0
    for fmt in sorted(SEEDS):
        for seed in SEEDS[fmt]:
            idx += 1
            if not ctx.mine(idx):
                continue
            M.feed(seed)
            for s in sorted(edits1(seed)):
                M.feed(s)
    rng = ctx.rng
    # double edits of random seeds (thorough: many more)
    allseeds = [s for v in SEEDS.values() for s in v]
    for _ in range(ctx.scale(400, 6000)):
        s = rng.choice(allseeds)
        e1 = rng.choice(sorted(edits1(s, alphabet=rng.sample(ALPHABET, 6))))
        pop = sorted(edits1(e1, alphabet=rng.sample(ALPHABET, 4)))
        for s2 in rng.sample(pop, min(12, len(pop))):
            M.feed(s2)
    # random unicode strings
    pool = ALPHABET + list("ghijklmnopqrstuvwy") + ["٠", "‍", "﻿", "\U0001f600", "́"]
    for _ in range(ctx.scale(3000, 60000)):
        n = rng.randrange(0, 65 if rng.random() < 0.9 else 200)
        M.feed("".join(rng.choice(pool) for _ in range(n)))
    # structured generators
    for _ in range(ctx.scale(3000, 40000)):
        M.feed(gen_ipv6(rng))
        M.feed(gen_ipv4(rng))
        M.feed(gen_date(rng))
    ctx.sample({"format": "date", "string": "20200101"})
    ctx.sample({"format": "regex", "string": "a{99999999999}"})
    ctx.sample({"format": "ipv6", "string": "1:2:3:4:5:6:7::"})


def gen_ipv4(rng):
    parts = [str(rng.choice([0, 1, 9, 10, 99, 100, 199, 200, 249, 250, 255, 256, 300, 1000])) for _ in range(rng.choice([3, 4, 4, 4, 5]))]
    if rng.random() < 0.2:
        i = rng.randrange(len(parts))
        parts[i] = rng.choice(["0", "00", "01", "", " 1", "+1", "1e1", "0x1", "１"]) + (parts[i] if rng.random() < 0.5 else "")
    return ".".join(parts)


def gen_ipv6(rng):
    n = rng.choice([0, 1, 3, 5, 6, 7, 8, 8, 9])
    groups = [rng.choice(["0", "1", "ab", "ABCD", "0000", "ffff", "12345", "g", "", "1f"]) if rng.random() < 0.9 else "1.2.3.4" for _ in range(n)]
    if rng.random() < 0.4 and groups:
        groups[-1] = rng.choice(["1.2.3.4", "255.255.255.255", "1.2.3", "01.2.3.4", "1.2.3.256"])
    s = ":".join(groups)
    r = rng.random()
    if r < 0.5 and n >= 1:
        k = rng.randrange(0, n + 1)
        s = ":".join(groups[:k]) + "::" + ":".join(groups[k:])
    if rng.random() < 0.1:
        s += rng.choice(["%eth0", "%1", "/64", "%", " "])
    return s


def gen_date(rng):
    y = rng.choice(["2020", "2019", "1900", "2000", "0001", "0000", "9999", "2100", "2400", "1", "12345"])
    m = rng.choice(["01", "02", "03", "04", "06", "09", "11", "12", "13", "00", "1", "2"])
    d = rng.choice(["01", "28", "29", "30", "31", "32", "00", "1", "9"])
    sep = rng.choice(["-", "-", "-", "-", "", "/", ".", " "])
    return y + sep + m + sep + d + rng.choice(["", "", "", "T00:00:00", "Z", " ", "\n"])


def replay(ctx, rec):
    impl.quiet()
    c = rec["case"]
    M = Monitor(ctx)
    M.one(c["checker"], M.checkers[c["checker"]], c["format"], c["string"])
