"""C17 - an ErrorTree can always be built and contains every error where its path says.

Monitor: structure-vs-model checker.  The model is a dict of paths built from
the same error list; the tree is built in all arrival orders (<= 5 errors)
or in sampled orders.
"""
import itertools
import random

from jsonschema.exceptions import ErrorTree

from vf import impl
from vf.gen.instance import InstGen
from vf.gen.schema import SchemaGen

ID = "C17"
LEVEL = "exploration"
RULE = ("error lists of real validations (grammar schemas biased to draft-3 required + sibling object keywords, "
        "propertyNames + properties, several errors per (path, keyword), mixed array/object paths of depth >= 3; four "
        "drafts); the tree is built in ALL arrival orders when <= 5 errors, else 24 sampled orders.  A case is (draft, "
        "schema, instance, order); non-trivial when the list has >= 2 errors; distinct by canonical JSON of "
        "(draft, schema, instance, order).")
ASSUMPTIONS = ["membership/iteration judged on a freshly built tree before any error-free lookup, as the property says",
               "the model is the multiset of (path, keyword) pairs of the very error objects handed to the tree"]
REPORT_COUNTERS = ["trees", "error_lists", "lists_all_orders", "d3_required_lists", "propertyNames_lists",
                   "duplicate_path_keyword_lists", "depth3_lists", "nodes_checked", "error_free_lookups"]


def shards(tier):
    return 8 if tier == "quick" else 16


def floors(tier):
    return {"trees": 5000, "error_lists": 800, "lists_all_orders": 500, "d3_required_lists": 100,
            "propertyNames_lists": 100, "duplicate_path_keyword_lists": 200, "depth3_lists": 100,
            "nodes_checked": 20000, "error_free_lookups": 5000, "context_lists": 400, "context_lists_below_nonempty_path": 150, "other_trees_used_through_setitem": 150, "lists_with_trivial_members_among_applicators": 40}


def value_at(instance, path):
    cur = instance
    for p in path:
        try:
            if isinstance(cur, dict):
                if p not in cur:
                    return False, None
                cur = cur[p]
            elif isinstance(cur, list) and isinstance(p, int) and not isinstance(p, bool):
                if not 0 <= p < len(cur):
                    return False, None
                cur = cur[p]
            else:
                return False, None
        except Exception:
            return False, None
    return True, cur


def check_tree(ctx, case, instance, errors, order):
    seq = [errors[i] for i in order]
    try:
        tree = ErrorTree(seq)
    except Exception as e:
        ctx.violation("constructor-raised", case, "%s: %s" % (type(e).__name__, str(e)[:150]))
        return
    ctx.count("trees")
    paths = [tuple(e.path) for e in seq]
    pairs = {(tuple(e.path), e.validator) for e in seq}
    prefixes = {p[:i] for p in paths for i in range(len(p) + 1)}
    # 1. membership / iteration / totals at every node, on the fresh tree
    nodes = {}
    for pre in sorted(prefixes, key=lambda t: (len(t), repr(t))):
        node = tree
        ok = True
        for el in pre:
            try:
                node = node[el]
            except Exception as e:
                ctx.violation("walk-raised", case, "walking %r: %s: %s" % (list(pre), type(e).__name__, str(e)[:120]))
                ok = False
                break
        if not ok:
            continue
        nodes[pre] = node
        ctx.count("nodes_checked")
        children = {p[len(pre)] for p in paths if len(p) > len(pre) and p[:len(pre)] == pre}
        try:
            it = list(iter(node))
        except Exception as e:
            ctx.violation("iter-raised", case, "%s at %r" % (type(e).__name__, list(pre)))
            continue
        if sorted(map(repr, set(it))) != sorted(map(repr, children)) or len(it) != len(set(it)):
            ctx.violation("iteration", case, "at %r iter gives %r, model %r" % (list(pre), it, sorted(map(repr, children))))
        for c in children:
            if c not in node:
                ctx.violation("membership", case, "at %r: %r has errors beneath but `in` says no" % (list(pre), c))
        for probe in ("zz-not-there", 987654, "", 0, "a"):
            if probe not in children and probe in node:
                ctx.violation("membership", case, "at %r: %r has no errors but `in` says yes" % (list(pre), probe))
        total = sum(1 for (p, v) in pairs if p[:len(pre)] == pre)
        try:
            te, ln = node.total_errors, len(node)
        except Exception as e:
            ctx.violation("total-raised", case, "%s at %r" % (type(e).__name__, list(pre)))
            continue
        if te != total or ln != total:
            ctx.violation("total_errors", case, "at %r total_errors=%r len=%r, model %d" % (list(pre), te, ln, total))
    # (the caller looks at the errors while holding the tree - prints the sub-errors' locations, say: that must not move
    #  anything)
    for e in seq:
        for c in (e.context or ()):
            _ = (list(c.absolute_path), list(c.absolute_schema_path))
            if hasattr(c, "json_path"):
                _ = c.json_path
    if [tuple(e.path) for e in seq] != paths:
        k = next(i for i, e in enumerate(seq) if tuple(e.path) != paths[i])
        ctx.violation("path-moved-by-reading-sub-errors", case, "error %d had path %r when the tree was built; after the absolute paths of its "
                      "context errors were read it is %r" % (k, list(paths[k]), list(seq[k].path)))
        return
    # 2. every error is filed under its keyword at its path
    for e in seq:
        node = nodes.get(tuple(e.path))
        if node is None:
            continue
        filed = node.errors.get(e.validator)
        if filed is None:
            ctx.violation("not-filed", case, "node at %r lacks keyword %r" % (list(e.path), e.validator))
        elif tuple(filed.path) != tuple(e.path):
            ctx.violation("filed-wrong-path", case, "node at %r holds an error with path %r" % (list(e.path), list(filed.path)))
        if set(node.errors) != {v for (p, v) in pairs if p == tuple(e.path)}:
            ctx.violation("errors-keys", case, "node at %r has keywords %r" % (list(e.path), sorted(map(repr, node.errors))))
    # 3. indexing an existing, error-free element gives an empty tree (done last: lookups insert children)
    for pre, node in nodes.items():
        exists, val = value_at(instance, pre)
        if not exists or not isinstance(val, (dict, list)):
            continue
        children = {p[len(pre)] for p in paths if len(p) > len(pre) and p[:len(pre)] == pre}
        idxs = list(val) if isinstance(val, dict) else list(range(len(val)))
        for idx in idxs[:6]:
            if idx in children:
                continue
            ctx.count("error_free_lookups")
            try:
                child = node[idx]
                empty = child.total_errors == 0 and not child.errors and len(child) == 0
            except Exception as e:
                mech = None
                # known residual: the node recorded, as "its instance", the instance of an error whose
                # instance is not the value at its path (propertyNames errors carry the property *name*)
                # - only when that error is the one filed LAST at the node (the constructor lets the last one win; a
                #   lookup that fails although the last error filed there carries the real value is something else)
                at_node = [er for er in seq if tuple(er.path) == pre]
                if at_node:
                    er = at_node[-1]
                    if er.instance is not val and isinstance(er.instance, str) and isinstance(val, dict) and er.instance in val:
                        mech = "errortree-node-instance-from-propertyNames-error"
                ctx.violation("error-free-lookup-raised", case, "node at %r, index %r: %s: %s" % (
                    list(pre), idx, type(e).__name__, str(e)[:100]), mech=mech)
                continue
            if not empty:
                ctx.violation("error-free-lookup-not-empty", case, "node at %r, index %r" % (list(pre), idx))


def orders(rng, n, ctx):
    if n <= 5:
        ctx.count("lists_all_orders")
        return list(itertools.permutations(range(n)))
    out = [tuple(range(n)), tuple(reversed(range(n)))]
    for _ in range(22):
        p = list(range(n))
        rng.shuffle(p)
        out.append(tuple(p))
    return out


def one_list(ctx, rng, d, schema, instance):
    try:
        errors = list(impl.CLS[d](schema).iter_errors(instance))
    except Exception:
        ctx.count("validation_exception_delegated_to_C03")
        return
    if not errors:
        return
    ctx.count("error_lists")
    paths = [tuple(e.path) for e in errors]
    if d == 3 and any(e.validator == "required" for e in errors):
        ctx.count("d3_required_lists")
    if any("propertyNames" in list(e.schema_path) for e in errors):
        ctx.count("propertyNames_lists")
    if len({(p, e.validator) for p, e in zip(paths, errors)}) < len(errors):
        ctx.count("duplicate_path_keyword_lists")
    if any(len(p) >= 3 for p in paths):
        ctx.count("depth3_lists")
    if ctx.counters.get("error_lists", 0) % 4 == 0:
        # other trees living in the same process are used through the public mapping interface first (a report tree
        # that files whole trees under document names, a leaf that gets a child assigned): the tree built afterwards
        # reports its own errors and nothing else
        try:
            report = ErrorTree()
            report["vf-document.json"] = ErrorTree(errors)
            other = ErrorTree(errors[:1])
            node = other
            for step in list(errors[0].path):
                node = node[step]
            node["vf-assigned-child"] = ErrorTree()
            report["vf-second.json"] = other
            _ = ("vf-document.json" in report, len(report), list(report))
            ctx.count("other_trees_used_through_setitem")
        except Exception as e:
            ctx.violation("setitem-raised", {"draft": d, "schema": schema, "instance": instance}, "%s: %s" % (type(e).__name__, str(e)[:100]))
    for order in orders(rng, len(errors), ctx):
        case = {"draft": d, "schema": schema, "instance": instance, "order": list(order)}
        ctx.case([d, schema, instance, list(order)], nontrivial=len(errors) >= 2)
        check_tree(ctx, case, instance, errors, order)
    # the errors an applicator collected from its branches (error.context) are collections produced by iter_errors, too:
    # their paths are relative to the instance the applicator was applied to, wherever in the document that is
    for k, parent in enumerate(errors):
        if not parent.context or k > 6:
            continue
        sub = list(parent.context)
        if parent.absolute_path:
            ctx.count("context_lists_below_nonempty_path")
        ctx.count("context_lists")
        for order in orders(rng, len(sub), ctx)[:6]:
            case = {"draft": d, "schema": schema, "instance": instance, "order": list(order), "context_of_error": k}
            ctx.case([d, schema, instance, "context", k, list(order)], nontrivial=len(sub) >= 2)
            check_tree(ctx, case, parent.instance, sub, order)


def _lookalike_fixed():
    out = []
    for d in (3, 4, 6, 7):
        for name, outer, inner in (("a/b", "a", "b"), ("a.b", "a", "b"), ("a~1b", "a", "b"), ("/a/b", "", "a"), ("a/0", "a", 0), ("0/1", 0, 1), ("['a']['b']", "a", "b")):
            T = {"type": "integer"}
            if isinstance(inner, int):
                nested = {"items": [T, T]}
                val = ["x", "y"]
            else:
                nested = {"properties": {inner: T}}
                val = {inner: "x", "ok": 1}
            if isinstance(outer, int):
                continue
            schema = {"properties": {name: T, outer: nested}}
            for inst in ({name: "x", outer: val}, {outer: val, name: "y"}, {name: "x"}):
                out.append((d, schema, inst))
    return out


FIXED = [
    (3, {"additionalProperties": False, "properties": {"a": {"required": True}}}, {"b": 1}),
    (3, {"properties": {"a": {"required": True}, "b": {"type": "string"}}, "minProperties": 3, "type": "object",
         "patternProperties": {"^b": {"type": "null"}}}, {"b": 1}),
    (3, {"properties": {"a": {"required": True, "type": "string"}, "c": {"properties": {"d": {"required": True}}}}},
     {"c": {}}),
    (7, {"propertyNames": {"maxLength": 1}, "properties": {"ab": {"type": "string"}}}, {"ab": 1}),
    (7, {"propertyNames": {"maxLength": 1}, "properties": {"ab": {"type": "string"}}}, {"ab": 1, "x": 2, "yy": 3}),
    (6, {"propertyNames": {"pattern": "^a"}, "minProperties": 5, "required": ["q"]}, {"b": 1, "a": {"x": 1}}),
    (4, {"allOf": [{"type": "string"}, {"type": "null"}, {"minimum": 5}]}, 1),
    (4, {"items": {"allOf": [{"type": "string"}, {"type": "null"}]}}, [1, 2, [3]]),
    (7, {"properties": {"a": {"items": {"properties": {"b": {"items": {"type": "string"}}}}}}},
     {"a": [{"b": [1, "x", 2]}, {"b": [3]}], "c": 1}),
    (4, {"items": [{"type": "string"}, {"type": "null"}], "additionalItems": False, "minItems": 9}, [1, 2, 3]),
    (7, {"propertyNames": False}, {"a": 1, "b": 2}),
    (7, {"propertyNames": {"enum": ["a"]}, "additionalProperties": False, "properties": {"a": {}}}, {"a": 1, "bb": 2}),
]


def biased_schema(rng, d):
    g = SchemaGen(rng, d, maxdepth=rng.choice([1, 2, 3]))
    s = g.schema()
    if not isinstance(s, dict):
        return s
    r = rng.random()
    if d == 3 and r < 0.6:
        g.add(s, "properties", 0)
        for sub in s.get("properties", {}).values():
            if isinstance(sub, dict) and rng.random() < 0.7:
                sub["required"] = True
        if rng.random() < 0.6:
            s["additionalProperties"] = False
    elif d >= 6 and r < 0.5:
        s["propertyNames"] = rng.choice([{"maxLength": 1}, {"pattern": "^a"}, False, {"enum": ["a", "b"]}, {"minLength": 2}])
        if rng.random() < 0.7:
            g.add(s, "properties", 0)
    elif d >= 4 and r < 0.75:
        s["allOf"] = [g.keyword_schema(rng.choice(["type", "minimum", "maxLength", "required", "maxItems"])) for _ in range(3)]
    return s


def run(ctx):
    impl.quiet()
    rr = random.Random(1717)
    idx = 0
    for d, schema, inst in FIXED + _lookalike_fixed():
        idx += 1
        if ctx.mine(idx):
            one_list(ctx, rr, d, schema, inst)
            ctx.sample({"draft": d, "schema": schema, "instance": inst})
    # positional and named applicators whose members are partly trivial (true / {} / false): the errors of the others sit where
    # THEIR elements sit, and the elements without errors can be looked up
    for d in impl.DRAFTS:
        for T in ([True, {}] if d >= 6 else [{}]):
            obj = {"properties": {"a": {"type": "integer"}}}
            shapes = [
                ({"items": [T, {"type": "string"}, T, obj, T]}, [[{"a": 1}, 5, {"a": 1}, {"a": "x"}, [1]], [{"a": 1}, "s", 3, {"a": 2}], [[1], 1, [2], {"a": None, "b": [0]}]]),
                ({"items": [T, T, obj], "additionalItems": obj}, [[{"a": "x"}, {"a": "y"}, {"a": "z"}, {"a": "w", "c": {"k": 1}}], [1, 2, {"a": [1]}, {"a": 1}, {"a": 1.5}]]),
                ({"properties": {"p": T, "q": obj, "r": T}, "additionalProperties": obj}, [{"p": {"a": "x"}, "q": {"a": "x", "k": [1]}, "r": [1], "s": {"a": "y"}}]),
                ({"items": {"items": [T, {"type": "null"}, T, {"type": "null"}]}}, [[[{"k": 1}, 1, {"k": 2}, 2], [0, None, {"z": [1]}, 3]]]),
                ({"properties": {"x": {"items": [T, obj]}}}, [{"x": [{"a": "no"}, {"a": "no", "b": {"c": 1}}], "y": {"k": 1}}]),
            ]
            if d >= 6:
                shapes += [({"items": [False, T, {"type": "string"}]}, [[{"a": 1}, {"b": 2}, {"c": 3}], [1]]),
                           ({"items": [T, {"contains": {"type": "null"}}, T, False]}, [[[1], [1, {"k": 2}], [2], [3]]])]
            for schema, insts in shapes:
                for inst in insts:
                    idx += 1
                    if ctx.mine(idx):
                        ctx.count("lists_with_trivial_members_among_applicators")
                        one_list(ctx, rr, d, schema, inst)
    rng = ctx.rng
    for i in range(ctx.scale(900, 15000)):
        d = impl.DRAFTS[i % 4]
        schema = biased_schema(rng, d)
        try:
            if not impl.accepts(d, schema):
                continue
        except Exception:
            continue
        ig = InstGen(rng, schema)
        insts = ig.batch(3)
        if rng.random() < 0.3 and (d <= 4 and isinstance(schema, dict) or d >= 6):
            # deepen: mixed array/object paths of depth >= 3
            schema = {"properties": {"a": {"items": {"properties": {"b": schema}}}}, "type": "object"}
            insts = [{"a": [{"b": x}, {"b": y}], "c": 0} for x, y in zip(insts, reversed(insts))]
        for inst in insts:
            one_list(ctx, rng, d, schema, inst)


def replay(ctx, rec):
    impl.quiet()
    c = rec["case"]
    errors = list(impl.CLS[c["draft"]](c["schema"]).iter_errors(c["instance"]))
    order = c["order"]
    if sorted(order) != list(range(len(errors))):
        order = list(range(len(errors)))
    check_tree(ctx, c, c["instance"], errors, order)
