"""C08 - enum, const and uniqueItems use JSON equality at every nesting depth.

Monitor: reference-model comparator; oracle = strict JSON equality
(vf/model/equal.py).  Which of uniq()'s code paths ran is observed through
sys.monitoring line coverage of the function.
"""
import itertools
import random
from decimal import Decimal
import unicodedata

from vf import impl
from vf.gen import values as V
from vf.model.equal import all_distinct, jeq
from vf.util import jdump
from vf.obs.monitor import region_lines, shared_coverage

ID = "C08"
LEVEL = "exploration"
RULE = ("confusable pairs (true/1, false/0, 1/1.0, 0/-0.0, 2**53 / 2**53+1 / float(2**53), 10**23/1e23, NFC/NFD, "
        "key order, element order, []/{} ...) wrapped 0-3 levels deep in arrays and objects with siblings, plus "
        "G-json values with single edits; for each pair (c, x): {const: c}, {enum: [c]}, {enum: [d.., c, d..]}, "
        "uniqueItems on [c, x] and on arrays of 3-8 elements with duplicates adjacent / far apart, in every draft that "
        "has the keyword.  A case is (draft, schema, instance); non-trivial when both sides are not identical "
        "objects; distinct by canonical JSON.")
ASSUMPTIONS = ["oracle: strict JSON equality written from the JSON data model (numbers by exact value)"]
REPORT_COUNTERS = ["const_checked", "enum_checked", "unique_checked", "pairs_equal", "pairs_unequal",
                   "depth0", "depth1", "depth2", "depth3", "arrays_all_scalar", "arrays_sortable_containers",
                   "arrays_unsortable", "uniq_regions_hit"]


def shards(tier):
    return 8 if tier == "quick" else 16


def floors(tier):
    return {"const_checked": 20000, "enum_checked": 40000, "unique_checked": 40000, "pairs_equal": 3000,
            "pairs_unequal": 4000, "depth0": 500, "depth1": 500, "depth2": 500, "depth3": 500,
            "arrays_all_scalar": 500, "arrays_sortable_containers": 500, "arrays_unsortable": 500,
            "uniq_regions_hit": 1, "container_class_variants": 5000, "nested_placements": 10000, "aliased_subvalues": 5000,
            "pairs_through_the_command_line": 1500, "deep_pairs": 3000, "deep_pairs_decided": 800, "deep_pairs_ended_by_recursion_limit": 300}


NFC = unicodedata.normalize("NFC", "é")
NFD = unicodedata.normalize("NFD", "é")

BASE_PAIRS = [
    (True, 1), (False, 0), (1, True), (0, False), (True, 1.0), (False, 0.0), (False, -0.0), (1, 1.0), (0, -0.0),
    (0, 0.0), (0.0, -0.0), (2, 2.0), (2 ** 53, 2 ** 53 + 1), (2 ** 53 + 1, float(2 ** 53)), (2 ** 53, float(2 ** 53)),
    (10 ** 20, 1e20), (10 ** 23, 1e23), (10 ** 400, 10 ** 400), (10 ** 400, 10 ** 400 + 1), (1e308, int(1e308)),
    (NFC, NFD), ("a", "a"), ("a", "A"), ("", None), ("1", 1), ("true", True), (None, False), (None, 0),
    (None, None), ([], {}), ([], [[]]), ([], []), ({}, {}), ({}, {"a": None}), ([1, 2], [2, 1]), ([1, 2], [1, 2]),
    ({"a": 1, "b": 2}, {"b": 2, "a": 1}), ({"a": 1}, {"a": 1.0}), ({"a": 1}, {"a": True}), ([0], [False]),
    ([1], [True]), ([1], [1.0]), ({"a": False}, {"a": 0}), ([[0]], [[False]]), ("\U0001d11e", "\U0001d11e"),
    (0.1 + 0.2, 0.3), (1.5, 1.5), (True, True), (True, False), ([True, 1], [1, True]), ({"a": [1, {"b": 0}]}, {"a": [1, {"b": False}]}),
    ([None], [False]), ([""], [None]), ({"": 0}, {"": False}), ([1, [2, [3, True]]], [1, [2, [3, 1]]]),
    # a string is no array of its characters, an object no array of its members or names
    ("ab", ["a", "b"]), ("a", ["a"]), ("", []), ("null", ["n", "u", "l", "l"]), (["ab"], [["a", "b"]]), ({"k": "xy"}, {"k": ["x", "y"]}),
    ({"a": 1}, [["a", 1]]), ({"a": 1}, ["a"]), ({}, ""), ("a", {"a": None}), ("ab", "ab"), (["a", "b"], ["a", "b"]), ("\U0001d11e", ["\ud834", "\udd1e"]),
    # numbers as decimal.Decimal (what json.loads(..., parse_float=Decimal) hands over): compared by exact value
    (Decimal("0.1"), Decimal("0.1")), (Decimal("0.1"), Decimal("0.10")), (Decimal("0.1"), 0.1), (Decimal("0.5"), 0.5), (Decimal("1.0"), 1),
    (Decimal("1"), True), (2 ** 53, Decimal("9007199254740993.0")), (2 ** 53, Decimal("9007199254740992.0")), (Decimal("1e400"), 10 ** 400),
    (Decimal("0.30000000000000004"), 0.1 + 0.2), (Decimal("-0"), 0), ([Decimal("1.5")], [1.5]), ({"a": Decimal("2")}, {"a": 2.0}),
]


def wrap(rng, c, x, depth):
    """Wrap both sides identically `depth` times (arrays / objects, with equal siblings)."""
    for _ in range(depth):
        r = rng.random()
        sib = rng.choice([None, 0, 1, "a", True, [], {}, 1.5])
        if r < 0.25:
            c, x = [c], [x]
        elif r < 0.5:
            c, x = [sib, c], [sib, x]
        elif r < 0.75:
            c, x = {"a": c}, {"a": x}
        else:
            c, x = {"b": sib, "a": c}, {"a": x, "b": sib}     # key order differs too
    return c, x


def checks(ctx, c, x, depth, rng, V6=(6, 7), ALL=impl.DRAFTS):
    want = jeq(c, x)
    ctx.count("pairs_equal" if want else "pairs_unequal")
    ctx.count("depth%d" % min(depth, 3))
    distract = [d for d in (None, "zz", 42.5, ["zz"], {"zz": 1}) if not jeq(d, x)]
    for d in ALL:
        cls = impl.CLS[d]
        plan = []
        if d in V6:
            plan.append(({"const": c}, x, want, "const"))
        plan.append(({"enum": [c]}, x, want, "enum"))
        plan.append(({"enum": distract[:2] + [c] + distract[2:]}, x, want, "enum"))
        plan.append(({"uniqueItems": True}, [c, x], not want, "unique"))
        for schema, inst, exp, kind in plan:
            one(ctx, d, cls, schema, inst, exp, kind)
        # the same comparisons reached through applicators (a keyword that "knows" what its subschema says must still
        # compare as JSON does)
        if depth <= 1 and rng.random() < 0.35:
            E = {"const": c} if d in V6 else {"enum": [c]}
            E2 = {"enum": [distract[0], c]} if distract else {"enum": [c]}
            nested = [({"items": E}, [x], want), ({"properties": {"a": E2}}, {"a": x}, want), ({"additionalProperties": E}, {"k": x}, want),
                      ({"items": [{}, E2]}, ["first", x], want), ({"items": {"uniqueItems": True}}, [[c, x]], not want)]
            if d >= 4:
                nested += [({"not": E}, x, not want), ({"anyOf": [E, {"enum": distract[:1]}]}, x, want), ({"allOf": [{}, E2]}, x, want),
                           ({"oneOf": [E, E2]}, x, False if want else False)]
            else:
                nested += [({"disallow": [E]}, x, not want), ({"extends": [E2]}, x, want), ({"type": [E, "null"]}, x, want or x is None)]
            if d >= 6:
                other = [v for v in distract if not jeq(v, c)]
                nested += [({"contains": E}, [x], want), ({"contains": E}, [other[0], x] if other else [x], want),
                           ({"contains": E2}, [x], want), ({"contains": {"uniqueItems": True}}, [[c, x]], not want)]
            if d >= 7:
                nested += [({"if": E, "then": False}, x, not want), ({"if": E, "else": False}, x, want)]
            for schema, inst, exp in nested:
                if schema.get("oneOf"):
                    continue        # (both branches equal or both differ: never exactly one - nothing to learn)
                ctx.count("nested_placements")
                one(ctx, d, cls, schema, inst, exp, "nested")
        if depth <= 2 and (isinstance(c, (list, dict)) or isinstance(x, (list, dict))):
            # the same sub-value at several places of one instance, as ONE shared Python object on one side and as
            # separate objects on the other (data built in a program is aliased like this; parsed JSON never is)
            import copy
            cell = copy.deepcopy(x)
            x_alias = [cell, {"k": cell, "l": [cell]}]
            c_fresh = [copy.deepcopy(c), {"k": copy.deepcopy(c), "l": [copy.deepcopy(c)]}]
            ccell = copy.deepcopy(c)
            c_alias = [ccell, {"k": ccell, "l": [ccell]}]
            x_fresh = [copy.deepcopy(x), {"k": copy.deepcopy(x), "l": [copy.deepcopy(x)]}]
            for cc, xx in ((c_fresh, x_alias), (c_alias, x_fresh), (c_alias, x_alias)):
                ctx.count("aliased_subvalues")
                if d in V6:
                    one(ctx, d, cls, {"const": cc}, xx, want, "const", aliased=True)
                one(ctx, d, cls, {"enum": [cc]}, xx, want, "enum", aliased=True)
                one(ctx, d, cls, {"uniqueItems": True}, [cc, xx], not want, "unique", aliased=True)
        if _has_container(c) or _has_container(x):
            # the same JSON values in other container classes (both sides, e.g. loaded with object_pairs_hook=OrderedDict:
            # == between two OrderedDicts is order-sensitive; JSON objects are unordered)
            for ks, ki in CONTAINER_PLANS:
                ctx.count("container_class_variants")
                for schema, inst, exp, kind in plan[:2] + plan[-1:]:
                    one(ctx, d, cls, schema, inst, exp, kind, containers=(ks, ki))


CONTAINER_PLANS = [("ordered", "ordered-reversed"), ("ordered-reversed", "ordered"), ("defaultdict", None), (None, "defaultdict"),
                   ("list-subclass", None), ("ordered", "ordered")]


def _has_container(v):
    return isinstance(v, dict) and len(v) >= 1 or isinstance(v, list) and any(_has_container(e) for e in v)


def _dress(v, kind):
    from vf.gen.values import exotic
    return exotic(v, kind) if kind else v


def _intern(v, pool):
    """Equal sub-containers become one shared object (rebuilds, for a replay, the aliasing a recorded case had)."""
    if isinstance(v, list):
        v = [_intern(e, pool) for e in v]
    elif isinstance(v, dict):
        v = {k: _intern(e, pool) for k, e in v.items()}
    else:
        return v
    key = jdump(v)
    return pool.setdefault(key, v)


def one(ctx, d, cls, schema, inst, exp, kind, containers=None, aliased=False):
    case = {"draft": d, "schema": schema, "instance": inst}
    if aliased:
        case["aliased_subvalues"] = True
    if containers:
        case["containers"] = list(containers)
        if "uniqueItems" in schema and isinstance(inst, list) and len(inst) == 2:
            inst = [_dress(inst[0], containers[0]), _dress(inst[1], containers[1])]
        else:
            schema, inst = _dress(schema, containers[0]), _dress(inst, containers[1])
    ctx.case([d, schema, inst, containers])
    ctx.count(kind + "_checked")
    try:
        got = cls(schema).is_valid(inst)
    except Exception as e:
        ctx.violation("raised", case, "%s: %s" % (type(e).__name__, str(e)[:150]))
        return
    if got != exp:
        ctx.violation(kind, case, "implementation says %s, JSON equality says %s" % (
            "valid" if got else "invalid", "valid" if exp else "invalid"))


def classify_array(arr):
    if all(not isinstance(e, (list, dict)) for e in arr):
        return "arrays_all_scalar"
    if all(isinstance(e, list) for e in arr):
        try:
            sorted(arr)
            return "arrays_sortable_containers"
        except TypeError:
            return "arrays_unsortable"
    return "arrays_unsortable"


def unique_arrays(ctx, rng, n):
    for _ in range(n):
        size = rng.randrange(3, 9)
        mode = rng.random()
        if mode < 0.3:
            elems = [V.scalar(rng, hostile=0.2) for _ in range(size)]
        elif mode < 0.6:
            elems = [[rng.choice([0, 1, 2, True, False, 1.0, 0.0])] * rng.randrange(1, 3) for _ in range(size)]
        elif mode < 0.8:
            elems = [{"a": rng.choice([0, 1, True, False, 1.0, None])} for _ in range(size)]
        else:
            elems = [V.value(rng, 2, hostile=0.1) for _ in range(size)]
        r = rng.random()
        if r < 0.5:        # plant a duplicate / a confusable, adjacent or far apart
            i, j = rng.sample(range(size), 2)
            if rng.random() < 0.5:
                i, j = 0, size - 1
            c, x = rng.choice(BASE_PAIRS)
            if rng.random() < 0.5:
                c, x = wrap(rng, c, x, rng.randrange(0, 3))
            elems[i], elems[j] = c, x
        ctx.count(classify_array(elems))
        want = all_distinct(elems)
        for d in impl.DRAFTS:
            one(ctx, d, impl.CLS[d], {"uniqueItems": True}, elems, want, "unique")


def _deep(bottom, depth, shape):
    v = bottom
    for k in range(depth):
        if shape == "list" or (shape == "mixed" and k % 2):
            v = [v]
        else:
            v = {"k": v}
    return v


DEEP_BOTTOMS = [(True, 1, False), (0, False, False), (1, 1.0, True), (True, True, True), ("a", "a", True), (None, 0, False), ([], {}, False),
                ([0], [False], False), ({"a": 1}, {"a": True}, False), (0, -0.0, True), ([1, "x"], [1.0, "x"], True)]
DEEP_DEPTHS = [60, 150, 250, 320, 400, 600, 900, 960, 1000, 1050, 1100, 1200, 1300, 1400, 3000]
UNDER_LEVELS = list(range(180, 345, 5))      # schema levels above a 40-deep value: the comparison starts with little stack left


def deep_one(ctx, d, kw, depth, shape, bottoms):
    """A value nested `depth` levels deep against one that differs only at the bottom: the verdict is the JSON one, or the
    interpreter's recursion limit ends the comparison with RecursionError (counted, not a verdict) - never the other verdict."""
    a, b, eq = bottoms
    A, B = _deep(a, depth, shape), _deep(b, depth, shape)
    if kw == "const":
        schema, inst, exp = {"const": A}, B, eq
    elif kw == "enum":
        schema, inst, exp = {"enum": [_deep("other", depth, shape), A]}, B, eq
    elif kw == "uniqueItems":
        schema, inst, exp = {"uniqueItems": True}, [A, B], not eq
    elif kw == "under-items":
        A, B = _deep(a, 40, shape), _deep(b, 40, shape)
        schema, inst, exp = {"enum": [A]}, B, eq
        for _ in range(depth):
            schema, inst = {"items": schema}, [inst]
    else:   # the deep value sits under a shallow const/enum, below properties
        schema, inst, exp = {"properties": {"p": {"enum": [A]}}}, {"p": B}, eq
    case = {"draft": d, "deep": {"keyword": kw, "depth": depth, "shape": shape, "bottoms": [a, b, eq]}}
    ctx.case(["deep", d, kw, depth, shape, repr(bottoms)])
    ctx.count("deep_pairs")
    import sys
    limit = sys.getrecursionlimit()
    sys.setrecursionlimit(1000)      # the interpreter's default, whatever the harness runs under
    try:
        got = impl.CLS[d](schema).is_valid(inst)
    except RecursionError:
        ctx.count("deep_pairs_ended_by_recursion_limit")
        return
    except Exception as e:
        ctx.violation("raised", case, "%s: %s" % (type(e).__name__, str(e)[:150]))
        return
    finally:
        sys.setrecursionlimit(limit)
    ctx.count("deep_pairs_decided")
    if got != exp:
        ctx.violation("deep-" + kw, case, "values nested %d deep differing only at the bottom (%r / %r): implementation says %s, JSON equality says %s" % (
            depth, a, b, "valid" if got else "invalid", "valid" if exp else "invalid"))


def deep_pairs(ctx):
    n = 0
    for d in impl.DRAFTS:
        for kw in ("const", "enum", "uniqueItems", "under-properties"):
            if kw == "const" and d < 6:
                continue
            for depth in DEEP_DEPTHS:
                for shape in ("list", "dict", "mixed"):
                    for bottoms in DEEP_BOTTOMS:
                        n += 1
                        if ctx.mine(n):
                            deep_one(ctx, d, kw, depth, shape, bottoms)
        for levels in UNDER_LEVELS:
            for bottoms in DEEP_BOTTOMS[:4]:
                n += 1
                if ctx.mine(n):
                    deep_one(ctx, d, "under-items", levels, "list", bottoms)


def _jsonable(v):
    if isinstance(v, bool) or v is None or isinstance(v, str):
        return True
    if isinstance(v, int):
        return abs(v) < 10 ** 4000
    if isinstance(v, float):
        return v == v and abs(v) != float("inf")
    if isinstance(v, list):
        return all(_jsonable(x) for x in v)
    if isinstance(v, dict):
        return all(isinstance(k, str) and _jsonable(x) for k, x in v.items())
    return False


def through_the_command_line(ctx):
    """The same pairs as JSON TEXTS handed to the command line: schema in a file, the instance in a file or on standard
    input - however the two texts are read, one JSON value equals itself and the pairs keep their relation."""
    import json
    from vf.cliutil import Scratch
    from vf.obs import tripwire
    scratch = Scratch("vf_c08_")
    tripwire.allow_writes_under(scratch.dir)
    extra = [(0.1, 0.1), (2.2, 2.2), (1e-7, 1e-7), (0.1, 0.10000000000000002), ([0.5, 0.1], [0.5, 0.1]), ({"a": 3.3}, {"a": 3.3}), (1.0, 1), (1e2, 100), (-0.0, 0),
             (123456789.123456789, 123456789.12345679), (5e-324, 5e-324), (1e308, 1e308), ([0.1, [0.2]], [0.1, [0.2]])]
    pairs = [(c, x) for (c, x) in BASE_PAIRS if _jsonable(c) and _jsonable(x)] + extra
    n = 0
    try:
        for d in impl.DRAFTS:
            for c, x in pairs:
                n += 1
                if not ctx.mine(n):
                    continue
                eq = jeq(c, x)
                for kw, schema, inst, exp in (("const", {"const": c}, x, eq) if d >= 6 else ("enum", {"enum": [c]}, x, eq),
                                              ("enum", {"enum": ["vf-other-member", c]}, x, eq),
                                              ("uniqueItems", {"uniqueItems": True}, [c, x], not eq),
                                              ("nested", {"properties": {"p": {"enum": [{"k": c}]}}}, {"p": {"k": x}}, eq)):
                    for via in ("file", "stdin"):
                        ctx.count("pairs_through_the_command_line")
                        case = {"draft": d, "schema": schema, "instance": inst, "via": "command line, instance from " + via}
                        try:
                            if via == "file":
                                code, err = scratch.run(d, schema, [inst])
                            else:
                                code, err = scratch.run_stdin(d, schema, json.dumps(inst))
                        except (ValueError, OverflowError, RecursionError):
                            continue
                        if not isinstance(code, int):
                            ctx.violation("raised", case, str(code))
                        elif (code == 0) != exp:
                            ctx.violation("cli-" + kw, case, "exit status %d, JSON equality says %s (stderr %r)" % (code, "valid" if exp else "invalid", err[:100]))
    finally:
        scratch.close()


def run(ctx):
    impl.quiet()
    cov = shared_coverage()
    deep_pairs(ctx)
    through_the_command_line(ctx)
    try:
        idx = 0
        rr = random.Random(2024)
        # deterministic core: every base pair, both orders, depth 0..3, several wrappings
        for (c, x) in BASE_PAIRS:
            for depth in (0, 1, 2, 3):
                for rep in range(1 if depth == 0 else 4):
                    cw, xw = wrap(rr, c, x, depth)
                    idx += 1
                    if not ctx.mine(idx):
                        continue
                    checks(ctx, cw, xw, depth, rr)
                    checks(ctx, xw, cw, depth, rr)
        # arrays of base values: all pairs of a confusable alphabet in one array
        alphabet = [0, False, 1, True, 1.0, -0.0, "", None, [], {}, [0], [False], {"a": 0}, {"a": False}, "0", 2 ** 53, float(2 ** 53), 2 ** 53 + 1]
        for a, b, c3 in itertools.combinations(range(len(alphabet)), 3):
            idx += 1
            if not ctx.mine(idx):
                continue
            arr = [alphabet[a], alphabet[b], alphabet[c3]]
            ctx.count(classify_array(arr))
            want = all_distinct(arr)
            for d in impl.DRAFTS:
                one(ctx, d, impl.CLS[d], {"uniqueItems": True}, arr, want, "unique")
        # seeded part
        rng = ctx.rng
        from vf.gen.instance import mutate
        for _ in range(ctx.scale(1500, 30000)):
            v = V.value(rng, 3, hostile=0.2)
            w = mutate(rng, v) if rng.random() < 0.7 else v
            depth = rng.randrange(0, 4)
            cw, xw = wrap(rng, v, w, depth)
            checks(ctx, cw, xw, depth, rng)
        unique_arrays(ctx, rng, ctx.scale(1500, 30000))
        ctx.sample({"draft": 7, "schema": {"const": [0]}, "instance": [False]})
        ctx.sample({"draft": 3, "schema": {"uniqueItems": True}, "instance": [{"a": 0}, {"a": False}]})
    finally:
        pass
    hit = sorted(l for (base, qual, l) in cov.hit if base == "_utils.py" and qual == "uniq")
    regions = region_lines("_utils.py", "uniq")
    ctx.notes["uniq_lines_hit"] = hit
    ctx.notes["uniq_regions"] = {k: sorted(v & set(hit)) for k, v in regions.items() if k != "body"}
    if ctx.shard == 0:
        ctx.count("uniq_regions_hit", sum(1 for k, v in regions.items() if k != "body" and v & set(hit)) or (1 if hit else 0))


def replay(ctx, rec):
    impl.quiet()
    c = rec["case"]
    if "deep" in c:
        q = c["deep"]
        deep_one(ctx, c["draft"], q["keyword"], q["depth"], q["shape"], tuple(q["bottoms"]))
        return
    if str(c.get("via", "")).startswith("command line"):
        through_the_command_line(ctx)
        return
    d, schema, inst = c["draft"], c["schema"], c["instance"]
    if "const" in schema:
        exp = jeq(schema["const"], inst)
    elif "enum" in schema:
        exp = any(jeq(e, inst) for e in schema["enum"])
    else:
        exp = all_distinct(inst)
    if c.get("aliased_subvalues"):
        for side in ("schema", "instance", "both"):
            s2 = _intern(schema, {}) if side in ("schema", "both") else schema
            i2 = _intern(inst, {}) if side in ("instance", "both") else inst
            one(ctx, d, impl.CLS[d], s2, i2, exp, "replay", aliased=True)
        return
    one(ctx, d, impl.CLS[d], schema, inst, exp, "replay", containers=c.get("containers"))
