"""C05 - every violated keyword is reported, independently of its sibling keywords.

Monitor: metamorphic (schema restriction).  errors(S) must equal, as a
multiset of full fingerprints, the union over keywords k of the errors
attributed to k when validating against S|k = {k} + the siblings k consults
(+ definitions, id/$id, $schema).
"""
import random

from jsonschema import exceptions as X
from vf import impl
from vf.gen.instance import InstGen
from vf.gen.schema import SchemaGen, walk_subschemas
from vf.obs.fingerprint import fp

ID = "C05"
LEVEL = "exploration"
RULE = ("grammar schema objects with 2-8 keywords (four drafts), at the root and re-rooted at every nested subschema; "
        "instances biased to violate many keywords at once and to have several violations per keyword.  A case is "
        "(draft, schema object, instance); non-trivial when errors(S) has >= 2 errors; distinct by canonical JSON.")
ASSUMPTIONS = ["the implementation is compared with itself under schema restriction (metamorphic)",
               "schemas with a root-level $ref or references to '#' are excluded: restriction changes what '#' designates"]
REPORT_COUNTERS = ["cases", "cases_3plus_keywords_failing", "cases_2plus_errors_one_keyword", "rerooted_cases",
                   "multi:required", "multi:dependencies", "multi:items", "multi:properties", "multi:patternProperties",
                   "multi:additionalProperties", "multi:allOf", "multi:extends"]

CONSULTED = {
    "additionalProperties": ("properties", "patternProperties"),
    "additionalItems": ("items",),
    "if": ("then", "else"),
    "minimum": ("exclusiveMinimum",),     # boolean modifier in drafts 3/4
    "maximum": ("exclusiveMaximum",),
}
KEEP_ALWAYS = ("definitions", "id", "$id", "$schema", "x-slots")
MULTI = ("required", "dependencies", "items", "properties", "patternProperties", "additionalProperties", "allOf", "extends")


def shards(tier):
    return 8 if tier == "quick" else 16


def floors(tier):
    f = {"cases": 15000, "cases_3plus_keywords_failing": 3000, "cases_2plus_errors_one_keyword": 1000,
         "rerooted_cases": 3000, "cases_with_references": 2000, "cases_exotic_containers": 3000, "cases_user_keywords_reporting_nothing": 1500, "same_reference_text_under_two_scopes": 300, "cases_names_shared_between_siblings": 1500, "verdict_only_keyword_then_relative_sibling": 250, "same_class_elements_differing_by_value": 700}
    for k in MULTI:
        f["multi:" + k] = 100
        f["decomposed:" + k] = 500
    return f


def attr(e):
    sp = list(e.relative_schema_path)
    if not sp:
        return None
    k = sp[0]
    return "if" if k in ("then", "else") else k


def restrict(d, S, k):
    out = {k: S[k]}
    for c in CONSULTED.get(k, ()):
        if c in S:
            if c.startswith("exclusive") and d >= 6:
                continue   # numeric keywords of their own in drafts 6/7
            out[c] = S[c]
    for c in KEEP_ALWAYS:
        if c in S and c != k:
            out[c] = S[c]
    return out


def has_root_ref_or_hash(S):
    if "$ref" in S:
        return True

    def scan(x, depth=0):
        if depth > 40:
            return False
        if isinstance(x, dict):
            r = x.get("$ref")
            if isinstance(r, str) and (r == "#" or r == "" or r.endswith("#")):
                return True
            return any(scan(v, depth + 1) for v in x.values())
        if isinstance(x, list):
            return any(scan(v, depth + 1) for v in x)
        return False
    return scan(S)


def _quiet_none(validator, value, instance, schema):
    return None            # a plain function: the documented contract only asks for an iterable of errors, or nothing


def _quiet_list(validator, value, instance, schema):
    return []


def _quiet_iter(validator, value, instance, schema):
    return iter(())


def _quiet_gen(validator, value, instance, schema):
    return
    yield


QUIET = {"x-quiet-none": _quiet_none, "x-quiet-list": _quiet_list, "x-quiet-iter": _quiet_iter, "x-quiet-gen": _quiet_gen}
_EXT = {}


def extended_class(d):
    """The draft's class extended with user keywords that never report anything (written as a plain function returning
    None, as functions returning an empty list / iterator, as a generator)."""
    if d not in _EXT:
        from jsonschema import validators
        _EXT[d] = validators.extend(impl.CLS[d], dict(QUIET))
    return _EXT[d]


def with_quiet_keywords(rng, S):
    """S with 1-2 of the quiet user keywords inserted at random positions among its members (relative order kept)."""
    items = list(S.items())
    for name in rng.sample(sorted(QUIET), rng.randrange(1, 3)):
        k = rng.randrange(0, len(items) + 1)
        items.insert(k, (name, rng.choice([True, 1, {"a": 1}, []])))
    return dict(items)


def compare(ctx, d, S, inst, rerooted=False, store=None, handler_docs=None, wrap=None, ext=False):
    if not isinstance(S, dict) or has_root_ref_or_hash(S):
        return
    plain = inst
    if wrap:
        # the same JSON value in another container class, built afresh for every single evaluation (so that whatever an
        # evaluation does to its instance cannot reach the next one)
        from vf.gen.values import exotic
        ctx.count("cases_exotic_containers")
        mk = lambda: exotic(plain, wrap)
    else:
        mk = lambda: plain
    base_cls = extended_class(d) if ext else impl.CLS[d]
    if ext:
        ctx.count("cases_user_keywords_reporting_nothing")
    if store is not None or handler_docs is not None:
        from jsonschema import RefResolver

        def cls(schema):
            def handler(url):
                return handler_docs[url.split("#")[0]]
            return base_cls(schema, resolver=RefResolver.from_schema(schema, id_of=base_cls.ID_OF, store=dict(store or {}),
                                                                    handlers={"vf": handler}))
        ctx.count("cases_with_references")
    else:
        cls = base_cls
    case = {"draft": d, "schema": S, "instance": inst, "store": store, "handler_docs": handler_docs, "instance_class": wrap, "extended_class": ext}
    try:
        full = list(cls(S).iter_errors(mk()))
    except Exception as e:
        ctx.count("skipped_exception_delegated_to_C03")
        if not isinstance(e, (X.RefResolutionError, X.UnknownType, RecursionError)) and store is None and handler_docs is None \
                and not _mentions(S, ("$ref", "id", "$id", "extends")) and _plain_json(S) and _plain_json(inst) and _is_valid_schema(d, S):
            # a schema the metaschema accepts, without references or identifiers, over plain JSON: an exception out of the
            # iteration means none of the failures is reported
            ctx.violation("iteration-raised", case, "%s: %s - no failure is reported at all" % (type(e).__name__, str(e)[:120]))
        return
    ctx.count("cases")
    if rerooted:
        ctx.count("rerooted_cases")
    ctx.case([d, S, inst], nontrivial=len(full) >= 2)
    by_kw = {}
    for e in full:
        by_kw.setdefault(attr(e), []).append(e)
    if len(by_kw) >= 3:
        ctx.count("cases_3plus_keywords_failing")
    if any(len(v) >= 2 for v in by_kw.values()):
        ctx.count("cases_2plus_errors_one_keyword")
    for k, v in by_kw.items():
        if len(v) >= 2 and k in MULTI:
            ctx.count("multi:" + k)
    union = []
    for k in S:
        if k in ("then", "else") and "if" in S:
            continue     # attributed to `if`
        Sk = restrict(d, S, k)
        try:
            errs = list(cls(Sk).iter_errors(mk()))
        except Exception as e:
            ctx.violation("restricted-raised", dict(case, keyword=k), "%s: %s" % (type(e).__name__, str(e)[:120]))
            return
        union.extend(fp(e) for e in errs if attr(e) == k)
    if store is None and handler_docs is None and not ext:
        try:
            decompose(ctx, d, S, mk(), by_kw, case)
        except Exception as e:
            ctx.count("decompose_skipped_exception:" + type(e).__name__)
    F = sorted((fp(e) for e in full), key=repr)
    U = sorted(union, key=repr)
    if F != U:
        missing = [x for x in U if x not in F]
        extra = [x for x in F if x not in U]
        ctx.violation("union-mismatch", case, "errors(S) lacks %d error(s) its keywords produce alone (e.g. %r); has %d they do not produce (e.g. %r)" % (
            len(missing), missing[:1], len(extra), extra[:1]))


def _mentions(x, names):
    if isinstance(x, dict):
        return any(k in names or _mentions(v, names) for k, v in x.items())
    if isinstance(x, list):
        return any(_mentions(v, names) for v in x)
    return False


def _plain_json(x, depth=0):
    if depth > 60:
        return False
    if type(x) is dict:
        return all(type(k) is str and _plain_json(v, depth + 1) for k, v in x.items())
    if type(x) is list:
        return all(_plain_json(v, depth + 1) for v in x)
    if type(x) is int:
        return abs(x) < 10 ** 1000
    if type(x) is float:
        return x == x and x not in (float("inf"), float("-inf"))
    return x is None or type(x) in (bool, str)


def _is_valid_schema(d, S):
    try:
        impl.CLS[d].check_schema(S)
    except Exception:
        return False
    return True


def _pre(errs, path=(), spath=()):
    out = []
    for e in errs:
        f = fp(e)
        out.append((f[0], f[1], tuple(path) + f[2], tuple(spath) + f[3], f[4]))
    return out


def _errs(d, sub, inst):
    return list(impl.CLS[d](sub).iter_errors(inst))


def _search(pat, key):
    from vf.model import regex as rx
    try:
        return rx.search(pat, key)
    except rx.Unsupported:
        import re
        return re.search(pat, key) is not None


def decompose(ctx, d, S, inst, by_kw, case):
    """Second relation: the errors attributed to an applicator are the union,
    over the elements it applies, of the errors the subschema gives alone on
    the sub-instance (with the element's path / schema-path prefix); counting
    keywords yield one error per violation."""
    for k, val in S.items():
        exp = None
        count = None
        if k in ("allOf",) and d >= 4 or (k == "extends" and d == 3 and isinstance(val, list)):
            exp = []
            for i, sub in enumerate(val):
                exp += _pre(_errs(d, sub, inst), spath=(k, i))
        elif k == "extends" and d == 3 and isinstance(val, dict):
            exp = _pre(_errs(d, val, inst), spath=(k,))
        elif k == "items" and isinstance(inst, list):
            exp = []
            if isinstance(val, list):
                for i, (sub, el) in enumerate(zip(val, inst)):
                    exp += _pre(_errs(d, sub, el), path=(i,), spath=(k, i))
            else:
                for i, el in enumerate(inst):
                    exp += _pre(_errs(d, val, el), path=(i,), spath=(k,))
        elif k == "additionalItems" and isinstance(inst, list) and isinstance(S.get("items"), list) and isinstance(val, dict):
            exp = []
            for i in range(len(S["items"]), len(inst)):
                exp += _pre(_errs(d, val, inst[i]), path=(i,), spath=(k,))
        elif k == "properties" and isinstance(inst, dict):
            exp = []
            for p, sub in val.items():
                if p in inst:
                    exp += _pre(_errs(d, sub, inst[p]), path=(p,), spath=(k, p))
                elif d == 3 and isinstance(sub, dict) and sub.get("required") is True:
                    exp.append(("'required'", "%r is a required property" % p, (p,), (k, p, "required"), ()))
        elif k == "patternProperties" and isinstance(inst, dict):
            exp = []
            for pat, sub in val.items():
                for key, v in inst.items():
                    if _search(pat, key):
                        exp += _pre(_errs(d, sub, v), path=(key,), spath=(k, pat))
        elif k == "additionalProperties" and isinstance(inst, dict) and isinstance(val, dict):
            exp = []
            props = S.get("properties", {}) if isinstance(S.get("properties"), dict) else {}
            pats = S.get("patternProperties", {}) if isinstance(S.get("patternProperties"), dict) else {}
            for key, v in inst.items():
                if key in props or any(_search(pt, key) for pt in pats):
                    continue
                exp += _pre(_errs(d, val, v), path=(key,), spath=(k,))
        elif k == "dependencies" and isinstance(inst, dict):
            exp = []
            for prop, dep in val.items():
                if prop not in inst:
                    continue
                if isinstance(dep, (dict, bool)):
                    exp += _pre(_errs(d, dep, inst), spath=(k, prop))
                elif isinstance(dep, str):
                    if dep not in inst:
                        exp.append(("'dependencies'", "%r is a dependency of %r" % (dep, prop), (), (k,), ()))
                else:
                    for each in dep:
                        if each not in inst:
                            exp.append(("'dependencies'", "%r is a dependency of %r" % (each, prop), (), (k,), ()))
        elif k == "required" and d >= 4 and isinstance(inst, dict):
            count = sum(1 for name in val if name not in inst)
        if exp is not None:
            got = sorted((fp(e) for e in by_kw.get(k, [])), key=repr)
            want = sorted(exp, key=repr)
            ctx.count("decomposed:" + k)
            if got != want:
                ctx.violation("decomposition-mismatch", dict(case, keyword=k),
                              "%s yields %d error(s); its elements alone give %d (missing e.g. %r, extra e.g. %r)" % (
                                  k, len(got), len(want), [x for x in want if x not in got][:1], [x for x in got if x not in want][:1]))
        if count is not None:
            ctx.count("decomposed:" + k)
            if len(by_kw.get(k, [])) != count:
                ctx.violation("one-error-per-violation", dict(case, keyword=k),
                              "%d missing required properties but %d errors" % (count, len(by_kw.get(k, []))))


def two_scope_case(rng, d):
    """Sibling keywords whose subschemas reach the SAME reference text under different base URIs (two stored documents
    that each have their own `#/definitions/item` and a neighbouring `item.json`): what one keyword resolved must not
    decide what the text means for its sibling."""
    from vf.gen import refs as R
    idk = impl.IDKW[d]
    types = ["integer", "string", "array", "null", "boolean", "object"]
    t1, t2 = rng.sample(types, 2)
    store = {}
    for ver, t in (("v1", t1), ("v2", t2)):
        store[R.STORE_DIR + ver + "/doc.json"] = {"properties": {"v": {"$ref": "#/definitions/item"}, "w": {"$ref": "item.json"}},
                                                  "definitions": {"item": {"type": t}}}
        store[R.STORE_DIR + ver + "/item.json"] = {"type": t}
    a, b = rng.sample(["v1", "v2"], 2)
    members = [("properties", {"pa": {"$ref": R.STORE_DIR + a + "/doc.json"}}),
               ("patternProperties", {"^q": {"$ref": R.STORE_DIR + b + "/doc.json"}}),
               ("additionalProperties", {idk: R.STORE_DIR + b + "/", "items": {"$ref": "item.json"}})]
    if d >= 4:
        members.append(("allOf", [{"properties": {"pa": {idk: R.STORE_DIR + b + "/", "properties": {"z": {"$ref": "item.json"}}}}}]))
    else:
        members.append(("extends", [{"properties": {"pa": {idk: R.STORE_DIR + b + "/", "properties": {"z": {"$ref": "item.json"}}}}}]))
    rng.shuffle(members)
    S = dict(members)
    vals = [1, "s", [], None, True, {}]
    inst = {"pa": {"v": rng.choice(vals), "w": rng.choice(vals), "z": rng.choice(vals)}, "qb": {"v": rng.choice(vals), "w": rng.choice(vals)},
            "other": [rng.choice(vals), rng.choice(vals)]}
    return S, store, inst


def deterministic_sibling_families(ctx):
    """Two small families that do not depend on what the generators happen to draw:
    (a) a keyword that only asks for a verdict (not, contains, if, oneOf, disallow, a draft-3 type union) over a reference into
        ANOTHER document, followed by a sibling whose reference is relative to THIS document - what the first left behind
        (an abandoned iteration) is nothing the second can see;
    (b) containers whose elements are of one Python class but differ in value (3.0 and 3.5 under `integer`): the errors of
        `items` / `additionalProperties` / `properties` are the union over the elements, each looked at on its own."""
    from vf.gen import refs as R
    n = 0
    for d in impl.DRAFTS:
        idk = impl.IDKW[d]
        far = R.STORE_DIR + "far/doc.json"
        store = {far: {"definitions": {"t": {"type": "integer"}, "u": {"items": {"type": "integer"}}, "local": {"type": "null"}}},
                 R.STORE_DIR + "far/local.json": {"type": "null"}}
        R1, R2 = {"$ref": far + "#/definitions/t"}, {"$ref": far + "#/definitions/u"}
        leakers = [("disallow", [R1]), ("type", [R1, "null"]), ("extends", [{"disallow": [R2]}])] if d == 3 else \
                  [("not", R1), ("oneOf", [R1, {"type": "object"}]), ("anyOf", [{"not": R2}, R1]), ("allOf", [{"not": R1}])]
        if d >= 6:
            leakers += [("contains", R1), ("propertyNames", {"not": R1})]
        if d >= 7:
            leakers += [("if", R1)]
        for lk, lv in leakers:
            for victim_first in (False, True):
                victim = {"properties": {"b": {"$ref": "#/definitions/local"}, "c": {"items": {"$ref": "local.json"}}}}
                members = [(idk, "http://root.example/dir/root.json"), (lk, lv)] + list(victim.items())
                if victim_first:
                    members = [members[0]] + members[2:] + [members[1]]
                S = dict(members)
                S["definitions"] = {"local": {"type": "string"}}
                st = dict(store)
                st["http://root.example/dir/local.json"] = {"type": "string"}
                for inst in ({"b": 5, "c": [5, "s"]}, {"b": "s", "c": ["s"]}, {"b": None, "c": [None]}, [{"b": 5}], 7, "s", [1, "s"], {"b": [1]}):
                    n += 1
                    if ctx.mine(n):
                        ctx.count("verdict_only_keyword_then_relative_sibling")
                        compare(ctx, d, S, inst, store=st, handler_docs={})
        intk = {"type": "integer"}
        shapes = [{"items": intk, "minItems": 1}, {"additionalProperties": intk}, {"properties": {"a": intk, "b": intk, "c": intk}},
                  {"patternProperties": {"^": intk}}, {"items": [intk, intk, intk], "additionalItems": intk}, {"items": {"type": ["integer", "null"]}},
                  {"items": {"type": "number"}}, {"items": {"type": "boolean"}}, {"items": {"enum": [1, "x"]}}, {"items": {"minLength": 1}}]
        seqs = [[3.0, 3.5, 2.0, 2.5], [3.5, 3.0], [1, True, 0, False], [True, 1], ["", "x", ""], [1.0, 1, 1.5, "1"], [2.5, 2.0, None]]
        for S in shapes:
            for seq in seqs:
                for inst in (list(seq), dict(zip("abcdef", seq)), [list(seq)], {"a": seq[0], "zz": seq[-1], "b": seq[1]}):
                    n += 1
                    if ctx.mine(n):
                        ctx.count("same_class_elements_differing_by_value")
                        compare(ctx, d, S, inst)


def multi_violation_schema(rng, d):
    g = SchemaGen(rng, d, maxdepth=rng.choice([1, 2, 2, 3]), maxkw=8)
    s = g.schema()
    if not isinstance(s, dict):
        return s
    for _ in range(rng.randrange(0, 3)):
        kw = rng.choice(["required", "properties", "dependencies", "items", "patternProperties", "additionalProperties",
                         "allOf" if d != 3 else "extends"])
        if kw == "required" and d == 3:
            kw = "properties"
        if kw not in s:
            g.add(s, kw, 0)
    if d == 3 and isinstance(s.get("properties"), dict):
        for sub in s["properties"].values():
            if isinstance(sub, dict) and rng.random() < 0.6:
                sub["required"] = True
    if d != 3 and isinstance(s.get("required"), list) and len(s["required"]) < 3:
        s["required"] = list(dict.fromkeys(s["required"] + ["zz1", "zz2", "zz3"]))
    return s


ANNOTATIONS = [("default", lambda r: r.choice([0, "d", None, [], {}, False, 80])), ("title", lambda r: "t"), ("description", lambda r: "about"),
               ("examples", lambda r: [1, "e"]), ("readOnly", lambda r: True), ("$comment", lambda r: "c"), ("x-note", lambda r: {"default": 1})]


def share_names_and_annotate(rng, d, S):
    """The same member names in every keyword that lists names (properties, required, dependencies on both sides), and
    annotations (default, title, examples, ...) inside the sibling subschemas: what one keyword reports about a name does
    not depend on what a sibling says, or merely notes, about the same name."""
    S = dict(S)
    names = ["host", "port", "tls", "a", "zz1"]
    props = dict(S.get("properties") or {}) if isinstance(S.get("properties"), dict) else {}
    for n in names[:rng.randrange(2, 6)]:
        sub = props.get(n)
        sub = dict(sub) if isinstance(sub, dict) else {"type": rng.choice(["string", "integer", "boolean"])}
        for an, mk in rng.sample(ANNOTATIONS, rng.randrange(1, 4)):
            sub[an] = mk(rng)
        if d == 3 and rng.random() < 0.6:
            sub["required"] = True
        props[n] = sub
    S["properties"] = props
    pool = list(props)
    if d != 3:
        S["required"] = rng.sample(pool, min(len(pool), rng.randrange(2, 5))) + (["missing-everywhere"] if rng.random() < 0.5 else [])
    deps = {}
    for n in rng.sample(pool, min(len(pool), 2)):
        others = [m for m in pool if m != n]
        if rng.random() < 0.5 and others:
            deps[n] = rng.sample(others, min(len(others), 2)) if (d != 3 or rng.random() < 0.5) else others[0]
        else:
            deps[n] = {"properties": {m: {"default": 1, "type": "null"} for m in others[:2]}, **({"required": others[:2]} if d != 3 else {})}
    S["dependencies"] = deps
    if rng.random() < 0.5:
        S["additionalProperties"] = rng.choice([False, {"type": "null", "default": None}])
    insts = [{}, {pool[0]: 1}, {n: "v" for n in pool[:2]}, {n: None for n in pool}, {pool[-1]: True, "extra": 1}, {n: 5 for n in pool[1:]}]
    return S, insts


def run(ctx):
    impl.quiet()
    deterministic_sibling_families(ctx)
    rng = ctx.rng
    for i in range(ctx.scale(2200, 30000)):
        d = impl.DRAFTS[i % 4]
        S = multi_violation_schema(rng, d)
        try:
            if not impl.accepts(d, S):
                continue
        except Exception:
            continue
        ig = InstGen(rng, S)
        batch = ig.batch(4)
        for inst in batch:
            compare(ctx, d, S, inst)
        if i % 2 == 0:
            from vf.gen.values import EXOTIC_KINDS
            for j, inst in enumerate(batch):
                compare(ctx, d, S, inst, wrap="defaultdict" if j % 2 == 0 else EXOTIC_KINDS[1 + (i // 2 + j) % 3])
        if i % 4 == 3 and isinstance(S, dict) and "$ref" not in S:
            S4, insts4 = share_names_and_annotate(rng, d, S)
            try:
                ok4 = impl.accepts(d, S4)
            except Exception:
                ok4 = False
            if ok4:
                for inst in insts4:
                    ctx.count("cases_names_shared_between_siblings")
                    compare(ctx, d, S4, inst)
        if i % 5 == 1:
            S3, store3, inst3 = two_scope_case(rng, d)
            ctx.count("same_reference_text_under_two_scopes")
            compare(ctx, d, S3, inst3, store=store3, handler_docs={})
        if i % 3 == 2:
            S2 = with_quiet_keywords(rng, S)
            for inst in batch[:3]:
                compare(ctx, d, S2, inst, ext=True)
        if i % 3 == 0:
            from vf.gen import refs as R
            arr = R.arrange(rng, d, S)
            if arr is not None and R.arrangement_ok(arr) and arr.info["mode"] != "nested":
                for inst in batch:
                    compare(ctx, d, arr.schema, inst, store=arr.store, handler_docs=arr.handler_docs)
        # re-root at nested subschemas (the relation is recursive)
        subs = [s for p, s in walk_subschemas(d, S) if p and isinstance(s, dict) and len(s) >= 2]
        rng.shuffle(subs)
        for sub in subs[:3]:
            ig2 = InstGen(rng, sub)
            for inst in ig2.batch(2):
                compare(ctx, d, sub, inst, rerooted=True)
        if i % 401 == 0:
            ctx.sample({"draft": d, "schema": S, "instance": ig.directed()})


TRIPWIRE_EXPECTED = ("urlopen",)


def replay(ctx, rec):
    impl.quiet()
    c = rec["case"]
    compare(ctx, c["draft"], c["schema"], c["instance"], store=c.get("store"), handler_docs=c.get("handler_docs"), wrap=c.get("instance_class"), ext=c.get("extended_class", False))
