"""C09 - numeric keywords are exact for numbers of any magnitude and never raise.

Monitor: reference-model comparator (Fraction arithmetic) + exception filter.
"""
import math
import random
from fractions import Fraction

from vf import impl
from vf.model.numeric import exact_domain, is_multiple
from vf.obs.monitor import region_lines, shared_coverage

ID = "C09"
LEVEL = "exploration"
RULE = ("all ordered pairs (instance, bound/divisor) of a hostile number pool (integers up to 4000 digits, floats "
        "across the whole exponent range incl. subnormals, -0.0, integer-valued floats, neighbours of powers of two "
        "and ten, k*b and k*b +- ulp) x minimum/maximum/exclusive* (boolean flags in drafts 3/4, numeric in 6/7) and "
        "multipleOf/divisibleBy x four drafts; seeded part adds random pairs.  A case is (draft, schema, instance); "
        "every case is non-trivial (a numeric keyword applied to a number); distinct by canonical JSON.  multipleOf "
        "verdicts are compared only inside the exact sub-domain; exceptions are violations everywhere.")
ASSUMPTIONS = ["oracle: fractions.Fraction on the exact value of each int/float",
               "exact sub-domain predicate vf/model/numeric.py:exact_domain is a conservative subset of the property's"]
REPORT_COUNTERS = ["compared_bounds", "compared_multiple_exact", "multiple_outside_exact_domain_no_raise_only",
                   "big_int_pairs", "path_float_quotient", "path_overflow_fallback", "path_int_mod",
                   "region_multipleOf_except_hit"]


def shards(tier):
    return 8 if tier == "quick" else 16


def floors(tier):
    return {"compared_bounds": 100000, "compared_multiple_exact": 20000, "multiple_exact_true": 2000,
            "multiple_exact_false": 2000, "big_int_pairs": 1000, "path_float_quotient": 1000,
            "path_overflow_fallback": 1000, "path_int_mod": 1000, "region_multipleOf_except_hit": 1,
            "bound_true": 10000, "bound_false": 10000, "compared_bound_pairs": 5000, "bound_pair_true": 500,
            "bound_pair_false": 500, "compared_nested_under_root_decoys": 20000, "compared_through_cli": 5000}


def pool():
    ints = [0, 1, -1, 2, -2, 3, 4, 7, 10, 12, 100, 2 ** 20, 2 ** 52, 2 ** 53 - 1, 2 ** 53, 2 ** 53 + 1, 2 ** 53 + 2,
            -(2 ** 53) - 1, 2 ** 63, 2 ** 64 + 1, 10 ** 20, -(10 ** 20), 10 ** 22, 10 ** 23, 3 * 10 ** 22,
            2 ** 1023, 2 ** 1024 - 1, 2 ** 1024, 2 ** 1024 + 1, int(1.7976931348623157e308),
            int(1.7976931348623157e308) + 1, 10 ** 308, 10 ** 309, 10 ** 400, -(10 ** 400), 10 ** 400 + 1,
            3 * 10 ** 400, 2 ** 2000, 10 ** 3999, -(10 ** 3999), 6, 9, 15, 2 ** 30 * 3]
    floats = [0.0, -0.0, 0.5, -0.5, 0.25, 0.125, 1.0, -1.0, 1.5, 2.0, 2.5, 3.0, 4.0, 4.5, 0.1, 0.3, 0.2, 0.75, 7.5,
              1e-7, 5e-324, 1.5e-323, 2.2250738585072014e-308, 2.225073858507201e-308, 1e-300, 1e300, 1e308,
              -1e308, 1.7976931348623157e308, float(2 ** 53), float(2 ** 53) + 2, float(2 ** 53) - 1, 1e20, 1e22,
              1e23, 9007199254740993.0, 6.0, 12.0, 100.0, 0.0075, 0.0001, 1e16, 3e22, 2.0 ** 70, 3 * 2.0 ** 70,
              2.0 ** -30, 3 * 2.0 ** -30, 2.0 ** 1023, 2.0 ** -1022, 2.0 ** -1074]
    for k in range(-1070, 1024, 131):
        floats.append(2.0 ** k)
        floats.append(math.nextafter(2.0 ** k, math.inf))
        floats.append(math.nextafter(2.0 ** k, -math.inf))
    for k in (-300, -20, -5, 5, 15, 16, 17, 22, 23, 100, 300):
        floats.append(float("1e%d" % k))
        ints.append(10 ** k) if k > 0 else None
    out = []
    seen = set()
    for x in ints + floats:
        key = (type(x).__name__, repr(x))
        if key not in seen:
            seen.add(key)
            out.append(x)
    return out


def ulp_neighbours(rng, n):
    """k*b and k*b +- one ulp for random small dyadic b."""
    out = []
    for _ in range(n):
        b = rng.choice([0.5, 0.25, 1.5, 2.0, 0.75, 3.0, 1.25, 2.0 ** -10, 5.0, 2.5])
        k = rng.randrange(0, 2 ** rng.choice([3, 10, 20, 30]))
        x = k * b
        out.append((x, b))
        out.append((math.nextafter(x, math.inf), b))
        out.append((math.nextafter(x, -math.inf), b))
        out.append((k, b))
        out.append((float(k), rng.choice([1, 2, 3, 5, 7])))
    return out


def fr(x):
    return Fraction(x)


def schemas_for(draft, b):
    """(schema, kind, expected-predicate) for a bound/divisor b."""
    out = []
    if draft <= 4:
        for flag in (None, False, True):
            for kw, ex, op in (("minimum", "exclusiveMinimum", "ge"), ("maximum", "exclusiveMaximum", "le")):
                s = {kw: b}
                if flag is not None:
                    s[ex] = flag
                strict = flag is True
                out.append((s, "bound", (op, strict)))
    else:
        out.append(({"minimum": b}, "bound", ("ge", False)))
        out.append(({"maximum": b}, "bound", ("le", False)))
        out.append(({"exclusiveMinimum": b}, "bound", ("ge", True)))
        out.append(({"exclusiveMaximum": b}, "bound", ("le", True)))
    if b > 0:
        out.append(({"divisibleBy" if draft == 3 else "multipleOf": b}, "multiple", None))
    return out


def pair_schemas(draft, a, b):
    """Schemas with two numeric keywords in ONE object (each constraint stays independent)."""
    out = []
    if draft >= 6:
        out.append(({"minimum": a, "exclusiveMinimum": b}, [("ge", False, a), ("ge", True, b)]))
        out.append(({"maximum": a, "exclusiveMaximum": b}, [("le", False, a), ("le", True, b)]))
        out.append(({"exclusiveMinimum": a, "maximum": b}, [("ge", True, a), ("le", False, b)]))
    else:
        for flag in (True, False):
            out.append(({"minimum": a, "exclusiveMinimum": flag, "maximum": b}, [("ge", flag, a), ("le", False, b)]))
            out.append(({"maximum": a, "exclusiveMaximum": flag, "minimum": b}, [("le", flag, a), ("ge", False, b)]))
    return out


def check_triple(ctx, draft, i, a, b, validators):
    for schema, constraints in pair_schemas(draft, a, b):
        case = {"draft": draft, "schema": schema, "instance": i}
        ctx.case([draft, schema, i])
        try:
            got = impl.CLS[draft](schema).is_valid(i)
        except Exception as e:
            ctx.violation("raised", case, "%s: %s" % (type(e).__name__, str(e)[:120]))
            continue
        want = all(expected_bound(i, bound, op, strict) for op, strict, bound in constraints)
        ctx.count("compared_bound_pairs")
        ctx.count("bound_pair_true" if want else "bound_pair_false")
        if got != want:
            ctx.violation("bound-pair", case, "implementation %s, exact arithmetic %s" % (got, want))


def nested_variants(draft, schema):
    """`schema` below the root of a document whose ROOT object carries numeric keywords of its own, with the opposite
    exclusive flags (they apply to numbers only, the root instance is an object/array: they must not reach the nested
    keyword, which reads its own siblings)."""
    flip = {"exclusiveMinimum": not schema.get("exclusiveMinimum", False), "exclusiveMaximum": not schema.get("exclusiveMaximum", False)}
    if draft <= 4:
        decoy = {"minimum": 10 ** 9, "maximum": -10 ** 9, "exclusiveMinimum": flip["exclusiveMinimum"],
                 "exclusiveMaximum": flip["exclusiveMaximum"], ("divisibleBy" if draft == 3 else "multipleOf"): 10 ** 9 + 7}
    else:
        decoy = {"minimum": 10 ** 9, "maximum": -10 ** 9, "exclusiveMinimum": 10 ** 9, "exclusiveMaximum": -10 ** 9, "multipleOf": 10 ** 9 + 7}
    yield dict(decoy, properties={"a": schema}), (lambda i: {"a": i})
    yield dict(decoy, items=schema), (lambda i: [i])
    yield dict(decoy, definitions={"n": schema}, properties={"a": {"$ref": "#/definitions/n"}}), (lambda i: {"a": i})
    if draft >= 4:
        yield dict(decoy, properties={"a": {"allOf": [schema]}}), (lambda i: {"a": i})
    else:
        yield dict(decoy, properties={"a": {"extends": [schema]}}), (lambda i: {"a": i})


def check_nested(ctx, draft, schema, i, want):
    for S, mk in nested_variants(draft, schema):
        inst = mk(i)
        case = {"draft": draft, "schema": S, "instance": inst, "inner": {"schema": schema, "instance": i}}
        ctx.case([draft, S, inst])
        ctx.count("compared_nested_under_root_decoys")
        try:
            got = impl.CLS[draft](S).is_valid(inst)
        except Exception as e:
            ctx.violation("raised", case, "%s: %s" % (type(e).__name__, str(e)[:120]))
            continue
        if got != want:
            ctx.violation("nested", case, "implementation %s below a root with its own numeric keywords, exact arithmetic %s" % (got, want))


def cli_cases(ctx):
    """The same decisions through the command line (schema and instance read from files with the CLI's own JSON loader):
    exit status 0 exactly when exact arithmetic says valid, and nothing but SystemExit-free, traceback-free runs."""
    import io
    import json
    import shutil
    import tempfile
    from jsonschema import cli
    nums = [0, 1, 7, -3, 10 ** 30, 10 ** 400, 2 ** 53 + 1, 0.5, 1.5, 0.1, 0.3, 1e30, 1e308, 5e-324, 2.5, 1.0, 3.0, 1e-7, 123456789.125, -0.75, 1e22, 9007199254740993.0]
    tmp = tempfile.mkdtemp(prefix="vf_c09_")
    try:
        k = 0
        for draft in impl.DRAFTS:
            for b in nums:
                for schema, kind, exp in schemas_for(draft, b):
                    k += 1
                    if not ctx.mine(k):
                        continue
                    sp = "%s/s%d.json" % (tmp, k)
                    with open(sp, "w") as f:
                        json.dump(schema, f)
                    for j, i in enumerate(nums):
                        if kind != "bound" and not exact_domain(i, b):
                            continue
                        want = expected_bound(i, b, *exp) if kind == "bound" else is_multiple(i, b)
                        ip = "%s/i%d_%d.json" % (tmp, k, j)
                        with open(ip, "w") as f:
                            json.dump(i, f)
                        _cli_one(ctx, draft, schema, i, sp, ip, want)
    finally:
        shutil.rmtree(tmp, ignore_errors=True)


def _cli_one(ctx, draft, schema, i, sp, ip, want):
    import io
    from jsonschema import cli
    case = {"draft": draft, "schema": schema, "instance": i, "entry": "cli"}
    ctx.case([draft, schema, i, "cli"])
    ctx.count("compared_through_cli")
    out, err = io.StringIO(), io.StringIO()
    # a program may have set the interpreter's int<->str conversion limit to suit its numbers (0 = no limit): an in-process
    # command-line run leaves it where it was, so that the numeric keywords go on seeing what they saw
    import sys
    before = sys.get_int_max_str_digits()
    mine = (0, 100000, before)[ctx.counters.get("compared_through_cli", 0) % 3]
    sys.set_int_max_str_digits(mine)
    try:
        try:
            code = cli.run(cli.parse_args(["-V", "jsonschema.Draft%dValidator" % draft, "-i", ip, sp]), stdout=out, stderr=err)
        except BaseException as e:
            ctx.violation("raised", case, "command line: %s: %s" % (type(e).__name__, str(e)[:120]))
            return
        after = sys.get_int_max_str_digits()
        ctx.count("cli_runs_under_a_conversion_limit_of_the_callers")
        if after != mine:
            ctx.violation("cli", dict(case, int_max_str_digits=mine), "the caller's int/str conversion limit was %d before the command-line run and is %d after" % (mine, after))
            return
    finally:
        sys.set_int_max_str_digits(before)
    if (code == 0) != want:
        ctx.violation("cli", case, "command line exit status %r (stderr %r), exact arithmetic says %s" % (
            code, err.getvalue()[:80], "valid" if want else "invalid"))


def expected_bound(i, b, op, strict):
    fi, fb = fr(i), fr(b)
    if op == "ge":
        return fi > fb if strict else fi >= fb
    return fi < fb if strict else fi <= fb


def check_pair(ctx, draft, i, b, validators, nested=False):
    for schema, kind, exp in schemas_for(draft, b):
        key = (draft, repr(schema))
        v = validators.get(key)
        if v is None:
            v = impl.CLS[draft](schema)
            if len(validators) > 5000:
                validators.clear()
            validators[key] = v
        case = {"draft": draft, "schema": schema, "instance": i}
        ctx.case([draft, schema, i])
        try:
            got = v.is_valid(i)
            errs = None
        except Exception as e:
            ctx.violation("raised", case, "%s: %s" % (type(e).__name__, str(e)[:120]))
            continue
        if kind == "bound":
            want = expected_bound(i, b, *exp)
            ctx.count("compared_bounds")
            ctx.count("bound_true" if want else "bound_false")
            if got != want:
                ctx.violation("bound", case, "implementation %s, exact arithmetic %s" % (got, want))
            elif nested:
                check_nested(ctx, draft, schema, i, want)
        else:
            if isinstance(b, float):
                big = isinstance(i, int) and abs(i) > 2 ** 1024
                try:
                    q = i / b
                    inf = math.isinf(q)
                except OverflowError:
                    inf = True
                ctx.count("path_overflow_fallback" if (big or inf) else "path_float_quotient")
            else:
                ctx.count("path_int_mod")
            if exact_domain(i, b):
                want = is_multiple(i, b)
                ctx.count("compared_multiple_exact")
                ctx.count("multiple_exact_true" if want else "multiple_exact_false")
                if got != want:
                    ctx.violation("multiple", case, "implementation %s, exact arithmetic %s" % (got, want))
                elif nested:
                    check_nested(ctx, draft, schema, i, want)
            else:
                ctx.count("multiple_outside_exact_domain_no_raise_only")
        if isinstance(i, int) and abs(i) > 2 ** 1024 or isinstance(b, int) and abs(b) > 2 ** 1024:
            ctx.count("big_int_pairs")


def run(ctx):
    impl.quiet()
    cov = shared_coverage()
    validators = {}
    try:
        P = pool()
        ctx.notes["pool_size"] = len(P)
        idx = 0
        for i in P:
            for b in P:
                idx += 1
                if not ctx.mine(idx):
                    continue
                for d in impl.DRAFTS:
                    check_pair(ctx, d, i, b, validators, nested=(fr(i) == fr(b) or idx % 7 == 0))
        rr = random.Random(31337)
        for (i, b) in ulp_neighbours(rr, 1500):
            idx += 1
            if not ctx.mine(idx):
                continue
            if isinstance(i, float) and not math.isfinite(i):
                continue
            for d in impl.DRAFTS:
                check_pair(ctx, d, i, b, validators, nested=(idx % 5 == 0))
        # two numeric keywords in one schema object: instance at / next to each bound
        small = [0, 1, 5, 10, 20, 2.5, -1, 2 ** 53, float(2 ** 53), 10 ** 400, 1e308, 5e-324, 0.5, 3]
        for a in small:
            for b in small:
                idx += 1
                if not ctx.mine(idx):
                    continue
                for d in impl.DRAFTS:
                    for i in {a, b}:
                        check_triple(ctx, d, i, a, b, validators)
                        if isinstance(i, int) and abs(i) < 2 ** 60:
                            check_triple(ctx, d, i + 1, a, b, validators)
                            check_triple(ctx, d, i - 1, a, b, validators)
        cli_cases(ctx)
        # seeded random pairs
        rng = ctx.rng
        for _ in range(ctx.scale(3000, 60000)):
            i = rand_number(rng)
            b = rand_number(rng)
            check_pair(ctx, rng.choice(impl.DRAFTS), i, b, validators)
        ctx.sample({"draft": 7, "schema": {"multipleOf": 0.5}, "instance": 10 ** 400})
        ctx.sample({"draft": 4, "schema": {"minimum": float(2 ** 53), "exclusiveMinimum": True}, "instance": 2 ** 53 + 1})
    finally:
        pass
    regions = region_lines("_validators.py", "multipleOf")
    hit = {l for (base, qual, l) in cov.hit if base == "_validators.py" and qual == "multipleOf"}
    exc_hit = sum(1 for k, lines in regions.items() if k.startswith("except") and lines & hit)
    ctx.notes["multipleOf_regions"] = {k: sorted(v & hit) for k, v in regions.items() if k != "body"}
    if ctx.shard == 0:
        ctx.count("region_multipleOf_except_hit", exc_hit)


def rand_number(rng):
    r = rng.random()
    if r < 0.25:
        return rng.randrange(-50, 50)
    if r < 0.4:
        return rng.randrange(-50, 50) * 2.0 ** rng.randrange(-8, 8)
    if r < 0.5:
        return rng.choice([1, -1]) * rng.randrange(1, 10 ** rng.choice([5, 20, 60, 320, 1000]))
    if r < 0.6:
        m = rng.random() * rng.choice([1, -1])
        return m * 10.0 ** rng.randrange(-320, 308)
    if r < 0.7:
        return float(rng.randrange(-10 ** 6, 10 ** 6))
    if r < 0.8:
        return rng.randrange(0, 2 ** 20) * 2.0 ** rng.randrange(-1074, 900)
    if r < 0.9:
        return rng.choice([1, -1]) * 2 ** rng.randrange(0, 1100) + rng.choice([0, 1, -1])
    return rng.choice(pool())


def replay(ctx, rec):
    impl.quiet()
    c = rec["case"]
    s = c["schema"]
    d = c["draft"]
    if c.get("entry") == "cli":
        import json
        import shutil
        import tempfile
        b = next(v for k, v in s.items() if not isinstance(v, bool))
        kind, exp = next((k, e) for sc, k, e in schemas_for(d, b) if sc == s)
        i = c["instance"]
        want = expected_bound(i, b, *exp) if kind == "bound" else is_multiple(i, b)
        tmp = tempfile.mkdtemp(prefix="vf_c09_")
        try:
            with open(tmp + "/s.json", "w") as f:
                json.dump(s, f)
            with open(tmp + "/i.json", "w") as f:
                json.dump(i, f)
            _cli_one(ctx, d, s, i, tmp + "/s.json", tmp + "/i.json", want)
        finally:
            shutil.rmtree(tmp, ignore_errors=True)
        return
    nested = "inner" in c
    if nested:
        s, inst = c["inner"]["schema"], c["inner"]["instance"]
    else:
        inst = c["instance"]
    b = next(v for k, v in s.items() if not isinstance(v, bool))
    check_pair(ctx, d, inst, b, {}, nested=nested)
