"""C16 - deriving checkers and validator classes never disturbs the originals.

Monitor: history monitor with recorded probe vectors.  Each history of
derivation operations runs in a forked child of a pristine controller (the
registries are global).  Every object gets a behavioural probe vector when it
is created; after every later operation all earlier objects are probed again
and compared with their recorded vectors.
"""
import random
import warnings

import jsonschema
from jsonschema import FormatChecker, RefResolver, TypeChecker, validators
from jsonschema import exceptions as X

from vf import impl
from vf.obs.fingerprint import fps
from vf.util import jdump

ID = "C16"
LEVEL = "exploration"
RULE = ("histories of 5-25 derivation operations {redefine, redefine_many, remove, extend with keyword overrides and/or a "
        "type checker, extend with no changes, create with/without version, Validator(schema, types=...), checker.checks, "
        "FormatChecker.cls_checks, FormatChecker(formats=...)} over the four draft classes and their type / format "
        "checkers, one forked process per history; after every operation every previously existing object is re-probed "
        "(is_type over 10 type names x 12 instances; errors over a battery with id-sensitive relative references, "
        "formats, integer-valued floats, overridden keywords; conforms over names x strings; META_SCHEMA, VALIDATORS "
        "keys, ID_OF).  A case is one history; every history is non-trivial; distinct by canonical JSON of its operations.")
ASSUMPTIONS = ["probe battery is finite (listed in vf/props/c16.py)",
               "overridden-keyword probes place the keyword only at pass-through positions (not under anyOf/oneOf/not/contains/if)"]
REPORT_COUNTERS = ["histories", "operations", "probes_compared", "objects_probed_after_5plus_later_ops", "op:redefine",
                   "op:redefine_many", "op:remove", "op:extend_override", "op:extend_typechecker", "op:extend_nochange",
                   "op:create", "op:create_version", "op:extend_version", "op:create_default_types", "op:validator_types", "op:checks",
                   "op:cls_checks", "op:formats_subset", "op:validator_twins", "untouched_twins_probed_later", "versioned_create_without_id"]

TYPE_NAMES = ["array", "boolean", "integer", "null", "number", "object", "string", "any", "thing", "zz-unknown"]
INSTANCES = [None, True, False, 0, 1, 1.0, 1.5, "", "s", [], [1], {}, {"a": 1}]
FORMAT_NAMES = ["date", "ipv4", "ipv6", "regex", "email", "time", "ip-address", "idn-hostname", "vf-one", "vf-two", "unknown"]
FORMAT_STRINGS = ["2020-01-01", "1.2.3.4", "::1", "(", "a@b", "12:00:00", "x", "", "example.com", "one", "two"]
STORE = {"http://base.example/doc.json": {"type": "integer"}, "http://other.example/dir/doc.json": {"type": "string"},
         "http://base.example/dir/doc.json": {"type": "array"}}
BATTERY = [
    ({"type": "integer"}, 1.0), ({"type": "integer"}, 1), ({"type": "string"}, "s"), ({"type": "string"}, 1), ({"type": "number"}, True),
    ({"type": "array"}, (1, 2)), ({"type": "object"}, {}), ({"type": ["null", "boolean"]}, None),
    ({"id": "http://base.example/root.json", "$id": "http://other.example/dir/root.json", "items": {"$ref": "doc.json"}}, [1, "s", []]),
    ({"id": "http://other.example/dir/root.json", "$id": "http://base.example/root.json", "items": {"$ref": "doc.json"}}, [1, "s", []]),
    ({"properties": {"a": {"id": "http://other.example/dir/", "$id": "http://base.example/dir/", "items": {"$ref": "doc.json"}}},
      "id": "http://base.example/root.json", "$id": "http://base.example/root.json"}, {"a": [1, "s", []]}),
    ({"format": "ipv4"}, "999.1.1.1"), ({"format": "date"}, "2020-13-01"), ({"format": "vf-one"}, "two"),
    ({"minimum": 1, "exclusiveMinimum": True}, 1), ({"exclusiveMinimum": 1}, 1), ({"const": 1}, 2), ({"contains": {"type": "null"}}, [1]),
    ({"if": {"type": "integer"}, "then": {"minimum": 5}}, 1), ({"divisibleBy": 2}, 3), ({"multipleOf": 2}, 3),
    ({"extends": [{"type": "string"}]}, 1), ({"disallow": ["integer"]}, 1), ({"allOf": [{"type": "string"}]}, 1),
    ({"properties": {"a": {"required": True}}}, {}), ({"required": ["a"]}, {}), ({"items": False}, [1]),
    ({"properties": {"p": {"vf-kw": 3, "maxLength": 1}}, "items": {"vf-kw": 1, "type": "string"}, "vf-kw": 2}, {"p": "toolong"}),
    ({"vf-kw": 7, "minLength": 3, "vf-other": 1}, "ab"), ({"dependencies": {"a": ["b"]}, "patternProperties": {"^a": {"type": "null"}}}, {"a": 1}),
    ({"enum": [[0]]}, [False]), ({"uniqueItems": True}, [1, True]), ({"propertyNames": {"maxLength": 1}}, {"ab": 1}),
    # reference objects with failing siblings (ignored, whatever the class's keyword table says about `$ref`)
    ({"definitions": {"a": {"minimum": 10}}, "$ref": "#/definitions/a", "type": "string", "maxLength": 0, "enum": []}, 5),
    ({"definitions": {"a": {}}, "properties": {"p": {"$ref": "#/definitions/a", "type": "null", "vf-kw": 9}}}, {"p": 1}),
    ({"items": {"$ref": "#", "maxItems": 0, "type": "string"}, "type": ["array", "integer"]}, [[1], 2]),
]


def shards(tier):
    return 8 if tier == "quick" else 16


def floors(tier):
    f = {"histories": 400, "operations": 5000, "probes_compared": 30000, "objects_probed_after_5plus_later_ops": 1000,
         "versioned_create_without_id": 50, "untouched_twins_probed_later": 200, "named_type_verdicts": 5000, "scripted_histories": 30, "versioned_create_reusing_a_name": 60, "versioned_create_with_private_scheme_id": 30, "versioned_create_with_fragment_only_difference": 30, "ambient_snapshots_compared": 4000}
    for op in ("redefine", "redefine_many", "remove", "extend_override", "extend_typechecker", "extend_nochange", "create",
               "create_version", "extend_version", "create_default_types", "validator_types", "checks", "cls_checks", "formats_subset", "validator_twins", "validator_named_types"):
        f["op:" + op] = 150
    return f


# --------------------------------------------------------------------------- probes

def probe_typechecker(T):
    out = []
    for name in TYPE_NAMES:
        row = []
        for inst in INSTANCES:
            try:
                row.append(bool(T.is_type(inst, name)))
            except X.UndefinedTypeCheck:
                row.append("undefined")
            except Exception as e:
                row.append("exc:" + type(e).__name__)
        out.append(row)
    return out


def probe_formatchecker(F):
    out = [sorted(F.checkers)]
    for name in FORMAT_NAMES:
        row = []
        for s in FORMAT_STRINGS:
            try:
                row.append(F.conforms(s, name))
            except Exception as e:
                row.append("exc:" + type(e).__name__)
        out.append(row)
    return out


def _errors(C, schema, inst, fc=None, V=None):
    try:
        with warnings.catch_warnings():
            warnings.simplefilter("ignore")
            if V is not None:
                return [list(map(str, f[:4])) for f in fps(V.iter_errors(inst))]
            resolver = RefResolver.from_schema(schema, id_of=C.ID_OF, store=dict(STORE))
            v = C(schema, resolver=resolver, format_checker=fc)
            return [list(map(str, f[:4])) for f in fps(v.iter_errors(inst))]
    except X.RefResolutionError:
        return "RefResolutionError"
    except X.UnknownType:
        return "UnknownType"
    except Exception as e:
        return "exc:" + type(e).__name__


def probe_class(C, fc):
    out = {"meta": jdump(C.META_SCHEMA), "keywords": sorted(C.VALIDATORS),
           "id_of": [str(C.ID_OF({"id": "x", "$id": "y"})), str(C.ID_OF({"id": "x"})), str(C.ID_OF({"$id": "y"})), str(C.ID_OF({}))],
           "types": probe_typechecker(C.TYPE_CHECKER),
           "battery": [_errors(C, s, i, fc) for s, i in BATTERY],
           "check_schema": [_check_schema(C, s) for s in CANDIDATES]}
    return out


# candidates for check_schema whose verdict hinges on the class's own keyword table / type checker being the one applied
CANDIDATES = [{"minLength": "three"}, {"properties": 12}, {"items": ({"type": "string"},)}, {"enum": (1, 2)},
              {"type": "string", "maxLength": 3}, {"type": "nope"}, {"required": "a"}, {"vf-kw": 5}, {"minItems": -1},
              {"properties": {"a": {"type": 5}}}, {"pattern": 5}, True, [], {"dependencies": {"a": 1}}]


def _check_schema(C, schema):
    try:
        with warnings.catch_warnings():
            warnings.simplefilter("ignore")
            C.check_schema(schema)
        a = "ok"
    except X.SchemaError as e:
        a = "SchemaError:%s:%s" % (e.validator, "/".join(map(str, e.schema_path)))
    except Exception as e:
        a = "exc:" + type(e).__name__
    try:
        with warnings.catch_warnings():
            warnings.simplefilter("ignore")
            jsonschema.validate("abcdef", schema, cls=C)
        b = "ok"
    except X.SchemaError:
        b = "SchemaError"
    except X.ValidationError as e:
        b = "ValidationError:%s" % (e.validator,)
    except Exception as e:
        b = "exc:" + type(e).__name__
    return [a, b]


def probe_validator(V, insts):
    return {"types": probe_typechecker(V.TYPE_CHECKER), "battery": [_errors(None, V.schema, i, V=V) for i in insts],
            "schema": jdump(V.schema)}


def pristine_types_probe(C, schema, types, insts):
    """What C(schema, types=...) gives on a class built afresh with C's public ingredients (so that nothing an
    earlier `types=` construction may have left on C can be involved).  None when C cannot be rebuilt that way."""
    try:
        with warnings.catch_warnings():
            warnings.simplefilter("ignore")
            fresh = validators.create(meta_schema=dict(C.META_SCHEMA), validators=dict(C.VALIDATORS),
                                      type_checker=C.TYPE_CHECKER, id_of=C.ID_OF)
            V = fresh(schema, types=types)
            return probe_validator(V, insts)["battery"]
    except Exception:
        return None


def probe_registry():
    out = []
    for d in impl.DRAFTS:
        for suffix in ("#", ""):
            with warnings.catch_warnings():
                warnings.simplefilter("ignore")
                out.append(validators.validator_for({"$schema": impl.META_ID[d].rstrip("#") + suffix}).__name__)
    return out


# --------------------------------------------------------------------------- custom functions (parameterised, deterministic)

NON_PASSTHROUGH = ("anyOf", "oneOf", "not", "contains", "if", "disallow", "type", "propertyNames")


def passthrough_only(schema, name, under=False):
    """True when keyword `name` never occurs below an applicator whose result
    feeds another verdict (there, changing `name` legitimately changes the
    errors attributed to the enclosing keyword)."""
    if isinstance(schema, dict):
        if name == "type" and "disallow" in schema:
            return False        # draft-3 `disallow` is implemented through the `type` keyword function
        for k, v in schema.items():
            if k == name and under:
                return False
            if not passthrough_only(v, name, under or k in NON_PASSTHROUGH):
                return False
    elif isinstance(schema, list):
        return all(passthrough_only(v, name, under) for v in schema)
    return True


def type_fn(kind):
    table = {"never": lambda c, i: False, "always": lambda c, i: True, "str": lambda c, i: isinstance(i, str),
             "intlike": lambda c, i: isinstance(i, (int, float)) and not isinstance(i, bool) and float(i).is_integer(),
             "tuple": lambda c, i: isinstance(i, (list, tuple))}
    return table[kind]


def kw_fn(tag):
    def f(validator, value, instance, schema):
        if isinstance(value, int) and value > 1:
            yield X.ValidationError("vf-kw[%s] rejects %r" % (tag, value))
    return f


def fmt_fn(accept):
    return lambda inst: inst == accept


# --------------------------------------------------------------------------- histories

class State:
    def __init__(self):
        self.objs = []       # dict(kind, obj, vec, born, label)
        self.twins = []      # (record of the probed twin, the untouched twin, probe instances, step)
        self.n = 0

    def add(self, kind, obj, label, extra=None):
        rec = {"kind": kind, "obj": obj, "label": label, "born": self.n, "extra": extra}
        rec["vec"] = self.probe(rec)
        self.objs.append(rec)
        return rec

    def probe(self, rec):
        k = rec["kind"]
        if k == "T":
            return probe_typechecker(rec["obj"])
        if k == "F":
            return probe_formatchecker(rec["obj"])
        if k == "C":
            return probe_class(rec["obj"], rec["extra"])
        if k == "V":
            return probe_validator(rec["obj"], rec["extra"])
        if k == "R":
            return probe_registry()
        if k == "FC":
            # the FormatChecker class as a factory: what a newly constructed checker knows
            return probe_formatchecker(FormatChecker())
        raise AssertionError(k)

    def pick(self, rng, kind):
        c = [r for r in self.objs if r["kind"] == kind]
        return rng.choice(c)


def gen_ops(rng):
    kinds = ["redefine", "redefine_many", "remove", "extend_override", "extend_typechecker", "extend_nochange", "create",
             "create_version", "extend_version", "create_default_types", "validator_types", "validator_types", "checks", "cls_checks",
             "formats_subset", "validator_twins", "validator_named_types"]
    ops = []
    for _ in range(rng.randrange(5, 26)):
        ops.append({"op": rng.choice(kinds), "r": rng.randrange(10 ** 6)})
    return ops


def run_history(rec, ops, base_draft):
    """Executed inside a forked child.  `rec` is a Ctx-like recorder."""
    impl.quiet()
    st = State()
    fc0 = FormatChecker()
    probe_fc = FormatChecker()       # private to the class probes: never offered to an operation
    st.add("R", None, "registry")
    fc_class = st.add("FC", None, "FormatChecker (class, as a factory)")
    for d in impl.DRAFTS:
        st.add("C", impl.CLS[d], "Draft%dValidator" % d, extra=probe_fc)
        st.add("T", impl.CLS[d].TYPE_CHECKER, "draft%d_type_checker" % d)
        st.add("F", getattr(jsonschema, "draft%d_format_checker" % d), "draft%d_format_checker" % d)
    st.add("F", fc0, "FormatChecker()#0")
    case = {"base_draft": base_draft, "history": ops}
    from vf.obs import ambient
    amb0 = ambient.snapshot()
    rec.count("histories")
    rec.case(case)
    for n, op in enumerate(ops):
        st.n = n + 1
        rng = random.Random(op["r"])
        kind = op["op"]
        rec.count("operations")
        rec.count("op:" + kind)
        changed = None        # the one object an operation is *meant* to change
        try:
            with warnings.catch_warnings():
                warnings.simplefilter("ignore")
                if kind == "redefine":
                    T = st.pick(rng, "T")
                    new = T["obj"].redefine(rng.choice(TYPE_NAMES[:9]), type_fn(rng.choice(["never", "always", "str", "intlike"])))
                    st.add("T", new, "redefine(%s)" % T["label"])
                elif kind == "redefine_many":
                    T = st.pick(rng, "T")
                    defs = {rng.choice(TYPE_NAMES[:9]): type_fn(rng.choice(["never", "always", "str"])) for _ in range(rng.randrange(0, 3))}
                    st.add("T", T["obj"].redefine_many(defs), "redefine_many(%s)" % T["label"])
                elif kind == "remove":
                    T = st.pick(rng, "T")
                    try:
                        new = T["obj"].remove(*rng.sample(TYPE_NAMES[:8], rng.randrange(1, 3)))
                        st.add("T", new, "remove(%s)" % T["label"])
                    except X.UndefinedTypeCheck:
                        pass
                elif kind in ("extend_override", "extend_typechecker", "extend_nochange"):
                    C = st.pick(rng, "C")
                    kw = {}
                    name = None
                    if kind == "extend_override":
                        # any keyword may be overridden (only that keyword's behaviour may change)
                        name = rng.choice(["vf-kw", "minLength", "type", "vf-other", "format", "$ref", "$ref"] +
                                          sorted(k for k in C["obj"].VALIDATORS if k != "$ref"))
                        # (a keyword may also be switched off by overriding it with None: the dispatch skips such entries)
                        kw["validators"] = {name: kw_fn("e%d" % n) if rng.random() < 0.8 else None}
                    same_tc = False
                    if kind == "extend_typechecker":
                        if rng.random() < 0.35:
                            kw["type_checker"] = C["obj"].TYPE_CHECKER      # explicit, but the parent's own
                            same_tc = True
                        else:
                            kw["type_checker"] = st.pick(rng, "T")["obj"]
                    try:
                        new = validators.extend(C["obj"], **kw)
                    except TypeError:
                        new = None
                    if new is not None:
                        nrec = st.add("C", new, "%s(%s)" % (kind, C["label"]), extra=C["extra"])
                        if kind == "extend_typechecker":
                            # a different type checker may change type-related behaviour only
                            for k in ("id_of", "meta", "keywords"):
                                if nrec["vec"][k] != C["vec"][k]:
                                    rec.violation("extend-lost-attributes", dict(case, step=n, parent=C["label"]),
                                                  "extend(%s, type_checker=...) differs from its parent in %r" % (C["label"], k))
                                    return
                        if kind == "extend_nochange" or same_tc:
                            if nrec["vec"] != C["vec"]:
                                diff = [k for k in nrec["vec"] if nrec["vec"][k] != C["vec"][k]]
                                rec.violation("extend-without-changes-differs", dict(case, step=n, parent=C["label"]),
                                              "extend(%s) with no changes differs from its parent in %r" % (C["label"], diff))
                                return
                        if kind == "extend_override":
                            # only the overridden keyword may behave differently
                            for (s, i), a, b in zip(BATTERY, C["vec"]["battery"], nrec["vec"]["battery"]):
                                if isinstance(a, list) and isinstance(b, list) and passthrough_only(s, name):
                                    # errors attributed to the overridden keyword: those it yields itself and, for an
                                    # applicator, those reached through it (its name is a step of their schema path)
                                    steps = [repr(name)] + (["'then'", "'else'"] if name == "if" else [])
                                    fa = [e for e in a if e[0] != repr(name) and not any(st_ in e[3] for st_ in steps)]
                                    fb = [e for e in b if e[0] != repr(name) and not any(st_ in e[3] for st_ in steps)]
                                    if name == "$ref":
                                        # (this version leaves no `$ref` step in schema paths, so what was reached through
                                        #  a reference cannot be told apart: overriding `$ref` may only REMOVE errors -
                                        #  the keywords next to a reference stay ignored)
                                        rest = list(fa)
                                        extra = []
                                        for e in fb:
                                            if e in rest:
                                                rest.remove(e)
                                            else:
                                                extra.append(e)
                                        if extra:
                                            rec.violation("override-changed-other-keywords", dict(case, step=n, keyword=name, schema=s, instance=i),
                                                          "overriding '$ref' made other keywords report errors the parent never reports: %r" % (extra[:2],))
                                            return
                                        continue
                                    if fa != fb:
                                        rec.violation("override-changed-other-keywords", dict(case, step=n, keyword=name, schema=s, instance=i),
                                                      "overriding %r changed errors of other keywords: %r vs %r" % (name, fa[:2], fb[:2]))
                                        return
                            if nrec["vec"]["id_of"] != C["vec"]["id_of"] or nrec["vec"]["meta"] != C["vec"]["meta"]:
                                rec.violation("extend-lost-attributes", dict(case, step=n, parent=C["label"]), "ID_OF or META_SCHEMA differs from the parent")
                                return
                elif kind == "extend_version":
                    # a versioned child keeps its parent's metaschema (and so takes over the registry entry of that
                    # metaschema id - existing, intended behaviour: the registry probe is re-recorded); the parent
                    # class itself, and every other class, must go on behaving as before
                    C = st.pick(rng, "C")
                    kw = {"version": "vfx%d_%d" % (op["r"], n)}
                    how = rng.choice(["permissive-type", "typechecker", "keyword"])
                    if how == "permissive-type":
                        kw["validators"] = {"type": lambda validator, types, instance, schema: iter(())}
                    elif how == "typechecker":
                        kw["type_checker"] = C["obj"].TYPE_CHECKER.redefine_many(
                            {"array": type_fn("tuple"), rng.choice(["integer", "string", "object"]): type_fn("always")})
                    else:
                        kw["validators"] = {rng.choice(["minLength", "properties", "items", "enum", "required"]): kw_fn("xv%d" % n)}
                    try:
                        new = validators.extend(C["obj"], **kw)
                    except TypeError:
                        new = None      # documented: classes created with default_types refuse a type_checker
                    if new is not None:
                        st.add("C", new, "extend_version[%s](%s)" % (how, C["label"]), extra=C["extra"])
                        changed = st.objs[0]
                        assert changed["kind"] == "R"
                elif kind in ("create", "create_version"):
                    C = st.pick(rng, "C")
                    T = st.pick(rng, "T")
                    meta = dict(C["obj"].META_SCHEMA)
                    # hand over either the parent's own mapping or a harness-owned one: create() must copy it
                    mine = C["obj"].VALIDATORS if rng.random() < 0.5 else dict(C["obj"].VALIDATORS)
                    kwargs = dict(meta_schema=meta, validators=mine, type_checker=T["obj"], id_of=C["obj"].ID_OF)
                    if kind == "create_version":
                        idk = "id" if "id" in meta else "$id"
                        meta[idk] = ("http://vf.example/meta/future-%d" % (op["r"] % 3)) if rng.random() < 0.6 else \
                            "http://vf.example/meta/%d/%d" % (op["r"], n)
                        if rng.random() < 0.2:
                            # an id that differs from a bundled draft's only by a (non-empty) fragment: another id
                            meta[idk] = impl.META_ID[rng.choice(impl.DRAFTS)].rstrip("#") + "#vf-strict-%d" % (op["r"] % 2)
                            rec.count("versioned_create_with_fragment_only_difference")
                        elif rng.random() < 0.25:
                            # an id under a scheme of the caller's own (nothing in the standard library knows it)
                            meta[idk] = "%s://meta.example/v%d/schema" % (rng.choice(["acme", "x-vf-meta", "tag+json"]), n)
                            rec.count("versioned_create_with_private_scheme_id")
                        kwargs["version"] = "vf%d_%d" % (op["r"], n)
                        if rng.random() < 0.4:
                            # a version NAME that is already taken (a bundled draft's, or one an earlier operation used): the
                            # new class claims the name, and nothing else - every metaschema id registered so far stays
                            kwargs["version"] = rng.choice(["draft3", "draft4", "draft6", "draft7", "vf-shared-a", "vf-shared-b"])
                            rec.count("versioned_create_reusing_a_name")
                        if rng.random() < 0.3:
                            # a hand-written metaschema: no id of its own, `$schema` says which dialect IT is written in
                            # (per the class's own ID_OF it has no id, so it claims no registry entry)
                            meta.pop(idk, None)
                            meta.pop("id", None)
                            meta.pop("$id", None)
                            meta["$schema"] = impl.META_ID[rng.choice(impl.DRAFTS)]
                            meta["properties"] = dict(meta.get("properties", {}), title={"type": "integer"})
                            rec.count("versioned_create_without_id")
                    new = validators.create(**kwargs)
                    new.VALIDATORS["vf-added-after-create"] = kw_fn("late")    # the new class's own table may be edited freely
                    st.add("C", new, "%s(%s)" % (kind, C["label"]), extra=C["extra"])
                    if mine is not C["obj"].VALIDATORS:
                        mine["vf-kw"] = kw_fn("mutated-after-create")          # editing the mapping handed over must not reach the class
                        mine.pop("type", None)
                elif kind == "create_default_types":
                    # classes WITHOUT an explicit type checker: the default one, or the deprecated default_types mapping
                    C = st.pick(rng, "C")
                    kwargs = dict(meta_schema=dict(C["obj"].META_SCHEMA), validators=dict(C["obj"].VALIDATORS), id_of=C["obj"].ID_OF)
                    if rng.random() < 0.5:
                        kwargs["default_types"] = {"string": str, "array": (list, tuple), "number": (int, float), "object": dict,
                                                   "integer": int, "boolean": bool, "null": type(None)}
                    new = validators.create(**kwargs)
                    if rng.random() < 0.5:
                        new = validators.extend(new)
                    st.add("C", new, "create_default_types(%s)" % C["label"], extra=C["extra"])
                elif kind == "validator_types":
                    C = st.pick(rng, "C")
                    types = rng.choice([{"string": (str, int)}, {"array": (list, tuple)}, {"number": (int, float, str)}, {"integer": float},
                                        {"string": (str, float), "null": (type(None), bool)}, {"object": (dict, list)}])
                    schema = rng.choice([{"type": "string"}, {"type": "array", "items": {"type": "number"}}, {"type": ["integer", "null"]},
                                         {"type": ["object", "null"]}, {"type": "number"}])
                    try:
                        V = C["obj"](schema, types=types)
                    except Exception:
                        V = None
                    if V is not None:
                        probe_insts = INSTANCES + [(1, 2), "5"]
                        vrec = st.add("V", V, "%s(types=%r)" % (C["label"], sorted(types)), extra=probe_insts)
                        # the same construction on a class rebuilt from the public ingredients must behave alike: what
                        # earlier types= constructions did must not have leaked into the class
                        try:
                            pristine = pristine_types_probe(C["obj"], schema, types, probe_insts)
                            if pristine is not None and pristine != vrec["vec"]["battery"]:
                                rec.violation("types-argument-sees-earlier-constructions", dict(case, step=n, cls=C["label"], types=sorted(types)),
                                              "%s(schema, types=%r) behaves differently from the same construction on a freshly built "
                                              "identical class: %s" % (C["label"], sorted(types), _diff(vrec["vec"]["battery"], pristine)))
                                return
                        except TypeError:
                            pass
                elif kind == "validator_named_types":
                    # types= given CLASSES OF THE PROGRAM'S OWN - several distinct classes carrying the same name (made by
                    # one factory, or named like a builtin): each validator goes by the classes it was given, whatever
                    # other validators (of this or another class) were given before
                    nm, mod = rng.choice([("Custom", "vf.app"), ("int", "builtins"), ("str", "builtins"), ("Thing", "__main__"), ("dict", "builtins")])
                    mk = lambda: type(nm, (object,), {"__module__": mod})
                    A, B = mk(), mk()
                    Sub = type("Sub", (A,), {"__module__": mod})
                    base = impl.CLS[rng.choice(impl.DRAFTS)]
                    Cx = base if rng.random() < 0.5 else validators.extend(base)
                    tname = rng.choice(["custom", "string", "integer", "object"])
                    givens = [("A", (A,)), ("B", (B,)), ("A-or-B", (A, B)), ("Sub", (Sub,))]
                    rng.shuffle(givens)
                    vs = [(lab, tp, Cx({"type": tname}, types={tname: tp if len(tp) > 1 or rng.random() < 0.5 else tp[0]})) for lab, tp in givens]
                    insts = [("A()", A()), ("B()", B()), ("Sub()", Sub()), ("1", 1), ("'s'", "s"), ("{}", {}), ("True", True)]
                    for rnd in range(2):
                        rng.shuffle(insts)
                        for ilab, inst in insts:
                            for lab, tp, V in vs:
                                rec.count("named_type_verdicts")
                                want = isinstance(inst, tp) and not (isinstance(inst, bool) and bool not in tp)
                                got = V.is_valid(inst)
                                if got != want:
                                    rec.violation("types-argument-confused-by-class-names", dict(case, step=n, type_name=tname, given=lab, instance=ilab, class_name=mod + "." + nm),
                                                  "validator built with types={%r: %s} says %s for %s (isinstance says %s); the classes are distinct "
                                                  "objects that share the name %s.%s" % (tname, lab, got, ilab, want, mod, nm))
                                    return
                elif kind == "validator_twins":
                    # two identical validator objects; one is probed now, the other is left completely alone and probed
                    # at the end of the history: it must behave as its twin did when both were created (anything an
                    # object captures lazily would be captured after the later derivations)
                    C = st.pick(rng, "C")
                    schema = {"properties": {"m": {"$ref": "http://vf.example/meta/future-%d" % rng.randrange(3)},
                                             "n": {"$ref": "http://vf.example/meta/future-%d#/properties/title" % rng.randrange(3)},
                                             "d": {"$ref": impl.META_ID[rng.choice(impl.DRAFTS)]}},
                              "type": rng.choice(["object", ["object", "string"]])}
                    try:
                        Va, Vb = C["obj"](schema), C["obj"](schema)
                    except Exception:
                        Va = None
                    if Va is not None:
                        insts = [{"m": {"type": 5}}, {"n": 5}, {"d": {"type": 5}}, {"m": {"title": 1}, "n": "t"}, {"d": {"minLength": -1}}, {}, "s", 1]
                        arec = st.add("V", Va, "%s(schema with references to ids registered later)" % C["label"], extra=insts)
                        st.twins.append((arec, Vb, insts, n))
                elif kind == "checks":
                    F = st.pick(rng, "F")
                    name = rng.choice(["vf-one", "vf-two", "date", "ipv4", "new-%d" % n])
                    F["obj"].checks(name)(fmt_fn(rng.choice(["one", "two", "x"])))
                    changed = F
                elif kind == "cls_checks":
                    name = rng.choice(["vf-one", "vf-two", "cls-%d" % n, "date"])
                    fn = fmt_fn(rng.choice(["one", "two"]))
                    FormatChecker.cls_checks(name)(fn)
                    changed = fc_class
                    after = FormatChecker()
                    if after.checkers.get(name, (None,))[0] is not fn:
                        rec.violation("cls_checks-not-visible-afterwards", dict(case, step=n), "a FormatChecker created after cls_checks(%r) lacks it" % name)
                        return
                    st.add("F", after, "FormatChecker()#%d" % n)
                elif kind == "formats_subset":
                    names = rng.sample(sorted(FormatChecker.checkers), rng.randrange(0, 3))
                    st.add("F", FormatChecker(formats=names), "FormatChecker(formats=%r)" % names)
        except Exception as e:
            rec.violation("operation-raised", dict(case, step=n), "%s: %s" % (type(e).__name__, str(e)[:200]))
            return
        # deriving, registering and redefining are confined to the library's own objects: the tables and settings of the
        # standard library that every other object in the process goes by (urllib's scheme tables, the decimal context, ...)
        # are what they were
        amb = ambient.snapshot()
        rec.count("ambient_snapshots_compared")
        if amb != amb0:
            rec.violation("ambient-state-changed", dict(case, step=n, operation=kind),
                          "after step %d (%s): %r" % (n, kind, {k: (str(a)[-80:], str(b)[-80:]) for k, (a, b) in ambient.diff(amb0, amb).items()}))
            return
        # probe every previously existing object
        for r in st.objs:
            if r["born"] == st.n:
                continue
            if r is changed:
                r["vec"] = st.probe(r)      # its own change is intended; re-record
                continue
            vec = st.probe(r)
            rec.count("probes_compared")
            if st.n - r["born"] >= 5:
                rec.count("objects_probed_after_5plus_later_ops")
            if vec != r["vec"]:
                what = _diff(vec, r["vec"])
                rec.violation("original-disturbed", dict(case, step=n, object=r["label"], operation=kind),
                              "after step %d (%s) the earlier object %s behaves differently: %s" % (n, kind, r["label"], what))
                return
    _probe_untouched_twins(rec, st, case)


def _probe_untouched_twins(rec, st, case):
    for arec, Vb, insts, born in st.twins:
        rec.count("untouched_twins_probed_later")
        with warnings.catch_warnings():
            warnings.simplefilter("ignore")
            vec = probe_validator(Vb, insts)
        if vec != arec["vec"]:
            rec.violation("untouched-twin-differs", dict(case, step=born, object=arec["label"]),
                          "a validator object created at step %d and not used until the end of the history behaves differently from what its "
                          "identical twin did at creation: %s" % (born, _diff(vec, arec["vec"])))
            return


def _diff(a, b):
    if isinstance(a, dict):
        for k in a:
            if a[k] != b.get(k):
                return "%s: %s" % (k, _diff(a[k], b[k]) if isinstance(a[k], (dict, list)) and isinstance(b.get(k), type(a[k])) else "%r vs %r" % (str(a[k])[:120], str(b.get(k))[:120]))
    if isinstance(a, list) and isinstance(b, list):
        for i, (x, y) in enumerate(zip(a, b)):
            if x != y:
                return "[%d] %r vs %r" % (i, str(x)[:150], str(y)[:150])
        return "length %d vs %d" % (len(a), len(b))
    return "%r vs %r" % (str(a)[:150], str(b)[:150])


def child(tier, seed, shard, nshards, ops, base_draft):
    from vf.ctx import Ctx
    c = Ctx("C16", tier, seed, shard, nshards)
    run_history(c, ops, base_draft)
    return c.result()


def scripted_histories(shard):
    """Fixed operation sequences (independent of the run's random stream) that dwell on one family of operations each: what a
    family was added for must not depend on how often the random histories happen to combine it with the right neighbours."""
    def seq(kinds, base):
        return [{"op": k, "r": base * 1000 + j * 37 + shard} for j, k in enumerate(kinds)]
    cdt, vt, nt = "create_default_types", "validator_types", "validator_named_types"
    return [seq([cdt] * 5 + [vt, vt, cdt, vt, vt, vt] * 3, 11), seq([vt, cdt, vt, nt, cdt, vt, vt, nt, vt, cdt, vt, vt], 12),
            seq(["create_version", "extend_version", "validator_twins", "create_version", "create", "extend_version", "create_version", "validator_twins"] * 2, 13),
            seq(["checks", "cls_checks", "formats_subset", "checks", "cls_checks", "formats_subset", "extend_nochange", "checks"] * 2, 14),
            seq(["redefine", "redefine_many", "remove", "extend_typechecker", "redefine", "extend_override", "remove", "redefine_many", "extend_override", "extend_nochange"] * 2, 15)]


def run(ctx):
    from vf.props.c18 import fork_run
    rng = ctx.rng
    histories = [(ops, impl.DRAFTS[j % 4], True) for j, ops in enumerate(scripted_histories(ctx.shard))]
    for i in range(ctx.scale(60, 1000)):
        histories.append((gen_ops(rng), impl.DRAFTS[i % 4], False))
    for i, (ops, d, scripted) in enumerate(histories):
        if scripted:
            ctx.count("scripted_histories")
        st, res = fork_run(lambda: child(ctx.tier, ctx.seed, ctx.shard, ctx.nshards, ops, d))
        if st != "ok":
            ctx.count("child_failed")
            ctx.notes.setdefault("child_errors", []).append(str(res)[-600:])
            continue
        ctx.evaluations += res["evaluations"]
        ctx.counters.update(res["counters"])
        ctx.hashes.update(res["hashes"])
        for v in res["violations"]:
            ctx.violation(v["kind"], v["case"], v["detail"], mech=v["mech"])
        if i % 31 == 0:
            ctx.sample({"history": ops})


def replay(ctx, rec):
    c = rec["case"]
    from vf.props.c18 import fork_run
    st, res = fork_run(lambda: child(ctx.tier, ctx.seed, 0, 1, c["history"], c.get("base_draft", 7)))
    if st == "ok":
        for v in res["violations"]:
            ctx.violation(v["kind"], v["case"], v["detail"], mech=v["mech"])
