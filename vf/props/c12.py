"""C12 - format is off unless a checker is given, and then follows the checker exactly.

Monitor: plumbing comparator - the `format` keyword's behaviour inside
validation is compared with direct conforms()/check() calls on the very
checker object, and exception objects are compared by identity.
"""
import random

import jsonschema
from jsonschema import exceptions as X

from vf import impl
from vf.gen import values as V
from vf.obs.fingerprint import fps

ID = "C12"
LEVEL = "exploration"
RULE = ("format names: every name registered in FormatChecker.checkers and in the four draft checkers, unknown names, "
        "'' ; instances of every JSON type incl. values a careless checker would reject or choke on (-1, 2**32, 2**128, "
        "1.5, true, null, [], {}); checker configurations: none, FormatChecker(), FormatChecker(formats=subset), the "
        "four draft checkers, custom checkers returning each of True False 0 1 '' 'x' [] [0] None or raising listed / "
        "unlisted / subclass-of-listed exceptions; four drafts; `format` at the root and nested under applicators.  A "
        "case is (draft, schema, instance, checker configuration); non-trivial when a checker is configured or the "
        "instance is a string; distinct by canonical JSON.")
ASSUMPTIONS = ["clause (b) uses the checker object itself as reference (direct conforms call)",
               "exception identity (`is`) is observable because custom functions raise pre-built exception objects"]
REPORT_COUNTERS = ["cases", "no_checker_cases", "with_checker_cases", "unknown_name_cases", "nonstring_builtin_cases",
                   "custom_return_cases", "listed_raise_cases", "unlisted_raise_cases", "subclass_raise_cases",
                   "format_errors_seen", "nested_cases"]

NONSTRINGS = [-1, 0, 1, 2 ** 32, 2 ** 128, -(2 ** 31), 1.5, -0.0, 1e308, True, False, None, [], [1], ["1.2.3.4"], {},
              {"a": "::1"}, [[]], 256, 10 ** 400]
STRINGS = ["", "a", "1.2.3.4", "1.2.3", "::1", ":::", "2020-01-01", "2020-13-01", "20200101", "(", "a*", "a@b", "ab",
           "12:34:56", "25:00:00", "example.com", "-a.com", "\U0001d11e", "a\nb", " ", "01.2.3.4", "xn--"]
UNKNOWN = ["unknown", "", "IPV4", "ipv4 ", "date-time-x", "Date", "é", "uuid-ish", "$ref"]
RETURNS = [True, False, 0, 1, "", "x", [], [0], None, 0.0, {}, {"a": 1}]


class Listed(Exception):
    pass


class ListedChild(Listed):
    pass


class ListedBase(BaseException):
    """A listed exception class need not derive from Exception."""


class Unlisted(Exception):
    pass


def shards(tier):
    return 4 if tier == "quick" else 16


def floors(tier):
    return {"cases": 20000, "no_checker_cases": 3000, "with_checker_cases": 10000, "unknown_name_cases": 1000,
            "nonstring_builtin_cases": 2000, "custom_return_cases": 300, "listed_raise_cases": 100,
            "unlisted_raise_cases": 1000, "subclass_raise_cases": 100, "format_errors_seen": 2000, "nested_cases": 3000, "stateful_sequence_calls": 3000, "reregistration_cases": 60,
            "raise_cases_under_applicators": 1000, "metaschema_format_cases": 200, "late_registration_cases": 40, "passing_checks_on_unrenderable_instances": 150, "checker_passed_by_position": 2000, "custom_functions_under_odd_names": 800}


def wrappers(d, fmt):
    """Schemas that place `format` at the root and under applicators, with the
    way to get from an instance to (sub-instance list) where format applies."""
    yield {"format": fmt}, lambda x: [x]
    yield {"items": {"format": fmt}}, lambda x: [x, x]
    yield {"properties": {"a": {"format": fmt}}, "additionalProperties": {"format": fmt}}, lambda x: {"a": x, "b": x}
    if d == 3:
        yield {"extends": [{"format": fmt}]}, lambda x: x
    else:
        yield {"allOf": [{"format": fmt}, {}]}, lambda x: x


def format_errors(errs):
    return [e for e in errs if e.validator == "format"]


def check_builtin(ctx, d, name, checker, cname, inst, nested):
    cls = impl.CLS[d]
    for k, (schema, build) in enumerate(wrappers(d, name)):
        if k and not nested:
            break
        built = build(inst)
        top = built if isinstance(built, (dict, list)) and k in (1, 2) else (built[0] if k == 0 else built)
        case = {"draft": d, "schema": schema, "instance": top, "checker": cname}
        ctx.case([d, schema, top, cname], nontrivial=checker is not None or isinstance(inst, str))
        ctx.count("cases")
        if k:
            ctx.count("nested_cases")
        try:
            if checker is None:
                ctx.count("no_checker_cases")
                errs = list(cls(schema).iter_errors(top))
                stripped = _strip_format(schema)
                base = list(cls(stripped).iter_errors(top))
                if fps(errs) != fps(base):
                    ctx.violation("format-without-checker", case, "errors differ from the schema with `format` removed")
                if not cls(schema).is_valid(top):
                    ctx.violation("format-without-checker", case, "invalid although no checker is configured")
                continue
            ctx.count("with_checker_cases")
            errs = list(cls(schema, format_checker=checker).iter_errors(top))
            if ctx.counters.get("with_checker_cases", 0) % 3 == 0:
                # the documented parameter order (schema, types, resolver, format_checker), handed over by position - directly
                # and through the module-level function, which passes extra positional arguments on to the class
                ctx.count("checker_passed_by_position")
                pos = list(cls(schema, (), None, checker).iter_errors(top))
                try:
                    jsonschema.validate(top, schema, cls, (), None, checker)
                    via_module = False
                except X.ValidationError:
                    via_module = True
                if fps(pos) != fps(errs) or via_module != bool(errs):
                    ctx.violation("positional-checker", case, "format_checker given by keyword: %d error(s); as fourth positional argument: %d; "
                                  "validate(instance, schema, cls, (), None, checker) %s" % (len(errs), len(pos), "raises" if via_module else "passes"))
        except Exception as e:
            ctx.violation("raised", case, "%s: %s" % (type(e).__name__, str(e)[:150]))
            continue
        try:
            conf = checker.conforms(inst, name)
        except Exception as e:
            ctx.violation("conforms-raised", case, "%s: %s" % (type(e).__name__, str(e)[:150]))
            continue
        fe = format_errors(errs)
        n_apply = {0: 1, 1: 2, 2: 2, 3: 1}[k]
        if fe:
            ctx.count("format_errors_seen")
        if conf and fe:
            ctx.violation("format-error-although-conforms", case, "conforms() is True but %d format error(s)" % len(fe))
        if not conf and len(fe) != n_apply:
            ctx.violation("format-error-missing", case, "conforms() is False but %d format error(s) instead of %d" % (len(fe), n_apply))
        if len(errs) != len(fe):
            ctx.violation("other-errors", case, "errors not attributed to format: %r" % [e.validator for e in errs])
        known = name in checker.checkers
        if not known:
            ctx.count("unknown_name_cases")
            if fe or not conf:
                ctx.violation("unknown-format-fails", case, "a name the checker does not know failed")
        elif not isinstance(inst, str):
            ctx.count("nonstring_builtin_cases")
            if fe or not conf:
                ctx.violation("builtin-rejects-non-string", case, "built-in format %r rejected a non-string" % name)


def _strip_format(s):
    if isinstance(s, dict):
        return {k: _strip_format(v) for k, v in s.items() if k != "format"}
    if isinstance(s, list):
        return [_strip_format(v) for v in s]
    return s


def custom_cases(ctx, rng, d):
    cls = impl.CLS[d]
    # return values
    # (a format may be called anything: also the empty string, a blank, something that reads like a falsy value)
    for r, fname in [(r, "custom") for r in RETURNS] + [(r, nm) for r in (True, False, 0, None, "x") for nm in ("", " ", "0", "False", "null", "date")]:
        chk = jsonschema.FormatChecker(formats=())
        chk.checks(fname)(lambda instance, r=r: r)
        for inst in ("x", 5, None, [], [1, "x"], {}, {"a": 1}, True, 1.5):
            case = {"draft": d, "custom_returns": repr(r), "instance": inst, "format_name": fname}
            ctx.case([d, "ret", repr(r), inst, fname])
            ctx.count("cases")
            ctx.count("custom_return_cases")
            if fname != "custom":
                ctx.count("custom_functions_under_odd_names")
            try:
                errs = list(cls({"format": fname}, format_checker=chk).iter_errors(inst))
                conf = chk.conforms(inst, fname)
            except Exception as e:
                ctx.violation("raised", case, "%s" % type(e).__name__)
                continue
            want_fail = not r
            if bool(errs) != want_fail or conf == want_fail:
                ctx.violation("custom-return", case, "function returned %r: %d errors, conforms=%r" % (r, len(errs), conf))
            for e in errs:
                if e.cause is not None:
                    ctx.violation("custom-return", case, "cause set although nothing was raised")
    # a check that passes has nothing to say about the instance: it is never rendered (values whose rendering fails or
    # is refused by the interpreter pass like any other)
    class Unrenderable(object):
        renders = 0

        def __repr__(self):
            Unrenderable.renders += 1
            raise Unlisted("rendered")
        __str__ = __repr__
    for r in [r for r in RETURNS if r]:
        chk = jsonschema.FormatChecker(formats=())
        chk.checks("custom")(lambda instance, r=r: r)
        for label, inst in (("object-that-cannot-be-rendered", Unrenderable()), ("integer-beyond-str-limit", 10 ** 5000),
                            ("array-with-such-an-integer", [1, 10 ** 5000]), ("object-holding-unrenderable", {"a": Unrenderable()})):
            case = {"draft": d, "custom_returns": repr(r), "instance": label, "passing_check_renders_nothing": True}
            ctx.case([d, "ret-unrenderable", repr(r), label])
            ctx.count("cases")
            ctx.count("passing_checks_on_unrenderable_instances")
            Unrenderable.renders = 0
            try:
                chk.check(inst, "custom")
                conf = chk.conforms(inst, "custom")
                errs = list(cls({"format": "custom"}, format_checker=chk).iter_errors(inst))
            except Exception as e:
                ctx.violation("raised", case, "the function returned %r, yet %s: %s" % (r, type(e).__name__, str(e)[:100]))
                continue
            if errs or not conf or Unrenderable.renders:
                ctx.violation("custom-return", case, "function returned %r: %d errors, conforms=%r, instance rendered %d time(s)" % (r, len(errs), conf, Unrenderable.renders))
    for name in sorted(impl.CLS[d].FORMAT_CHECKER.checkers) if getattr(impl.CLS[d], "FORMAT_CHECKER", None) else sorted(jsonschema.FormatChecker.checkers):
        for label, inst in (("integer-beyond-str-limit", 10 ** 5000), ("array-with-such-an-integer", [10 ** 5000]), ("object-that-cannot-be-rendered", Unrenderable())):
            case = {"draft": d, "format": name, "instance": label, "passing_check_renders_nothing": True}
            ctx.count("passing_checks_on_unrenderable_instances")
            Unrenderable.renders = 0
            try:
                jsonschema.FormatChecker().check(inst, name)
                errs = list(cls({"format": name}, format_checker=jsonschema.FormatChecker()).iter_errors(inst))
            except Exception as e:
                ctx.violation("raised", case, "a value that is no string passes every shipped check, yet %s: %s" % (type(e).__name__, str(e)[:100]))
                continue
            if errs or Unrenderable.renders:
                ctx.violation("builtin", case, "%d errors, rendered %d time(s)" % (len(errs), Unrenderable.renders))
    # raising
    plans = [(Listed, "listed", Listed("boom")), ((ValueError, Listed), "listed", Listed("boom")),
             (ListedBase, "listed", ListedBase("boom")), ((ValueError, ListedBase), "listed", ListedBase("boom")), (BaseException, "subclass", ListedBase("boom")),
             ((ValueError, Listed), "listed", ValueError("boom")), (Listed, "subclass", ListedChild("boom")),
             (LookupError, "subclass", KeyError("boom")), (OSError, "subclass", FileNotFoundError("boom"))]
    for E in (Unlisted, KeyError, IndexError, ValueError, TypeError, OSError, ZeroDivisionError, RuntimeError,
              AttributeError, AssertionError, UnicodeError, OverflowError, RecursionError, ArithmeticError, ImportError, NotImplementedError, MemoryError):
        plans.append(((), "unlisted", E("boom")))
        plans.append((Listed, "unlisted", E("boom")))
    # the library's own exception types raised by a custom function (e.g. out of a validator it runs on an embedded
    # document) are "any other exception" too when they are not listed
    for exc in (X.ValidationError("boom"), X.SchemaError("boom"), X.RefResolutionError("boom"), X.UnknownType("t", 1, {}),
                X.ValidationError("boom", validator="format")):
        plans.append(((), "unlisted", exc))
        plans.append((Listed, "unlisted", exc))
    for listed_spec, kind, exc in plans:
        def fn(instance, exc=exc):
            raise exc
        chk = jsonschema.FormatChecker(formats=())
        chk.checks("custom", raises=listed_spec)(fn)
        F = {"format": "custom"}
        under = [({"$ref": "#/definitions/f", "definitions": {"f": F}}, "x"),
                 ({"properties": {"a": {"$ref": "#/definitions/f"}}, "definitions": {"f": F}}, {"a": "x"}),
                 ({"items": {"$ref": "#/definitions/g"}, "definitions": {"g": {"$ref": "#/definitions/f"}, "f": F}}, ["x"]),
                 ({impl.IDKW[d]: "http://vf.example/c12/root.json", "items": {"$ref": "root.json#/definitions/f"}, "definitions": {"f": F}}, ["x"]),
                 ({"additionalProperties": F}, {"k": "x"}), ({"patternProperties": {"^k": F}}, {"k": "x"}),
                 ({"dependencies": {"k": F}}, {"k": "x"}), ({"items": [{}, F], "additionalItems": F}, [1, "x", "y"])]
        if d >= 4:
            under += [({"not": F}, "x"), ({"anyOf": [F, {}]}, "x"), ({"oneOf": [{"type": "integer"}, F]}, "x"),
                      ({"oneOf": [{}, F]}, "x"), ({"allOf": [{}, F]}, "x"), ({"not": {"not": F}}, "x")]
        else:
            under += [({"disallow": [F]}, "x"), ({"type": [F, "integer"]}, "x"), ({"extends": F}, "x"), ({"extends": [{}, F]}, "x")]
        if d >= 6:
            under += [({"contains": F}, ["x"]), ({"propertyNames": F}, {"x": 1})]
        if d >= 7:
            under += [({"if": F, "then": {}}, "x"), ({"if": {}, "then": F}, "x"), ({"if": False, "else": F}, "x")]
        for schema, inst in [(F, "x"), ({"items": F}, ["x"]),
                             ({"properties": {"a": F}}, {"a": "x"}), (F, []),
                             (F, {"k": [1]}), (F, 7), (F, None),
                             ({"items": F}, [{}]), ({"properties": {"a": F}}, {"a": [1]})] + under:
            if schema is not F and (schema, inst) in under:
                ctx.count("raise_cases_under_applicators")
            case = {"draft": d, "schema": schema, "instance": inst, "raises": repr(listed_spec), "raised": repr(exc)}
            ctx.case([d, schema, kind, repr(listed_spec)])
            ctx.count("cases")
            ctx.count(kind + "_raise_cases")
            for entry in ("iter_errors", "is_valid", "validate", "module_validate"):
                try:
                    v = cls(schema, format_checker=chk)
                    if entry == "iter_errors":
                        errs = list(v.iter_errors(inst))
                    elif entry == "is_valid":
                        errs = [] if v.is_valid(inst) else [None]
                    elif entry == "validate":
                        try:
                            v.validate(inst)
                            errs = []
                        except X.ValidationError as e:
                            if e is exc:
                                raise
                            errs = [e]
                    else:
                        try:
                            jsonschema.validate(inst, schema, cls=cls, format_checker=chk)
                            errs = []
                        except X.ValidationError as e:
                            if e is exc:
                                raise
                            errs = [e]
                    raised = None
                except Exception as e:
                    raised = e
                    errs = None
                if kind in ("listed", "subclass") and (schema, inst) in under:
                    # below an applicator: exactly what a function that returns False gives
                    if raised is not None:
                        ctx.violation("listed-exception-escaped", dict(case, entry=entry), "%s escaped" % type(raised).__name__)
                        continue
                    refchk = jsonschema.FormatChecker(formats=())
                    refchk.checks("custom")(lambda instance: False)
                    want = list(cls(schema, format_checker=refchk).iter_errors(inst))
                    if entry == "iter_errors":
                        sig = lambda es: sorted((str(e.validator), tuple(map(str, e.path)), tuple(map(str, e.schema_path))) for e in es)
                        if sig(errs) != sig(want):
                            ctx.violation("listed-exception-not-like-false", dict(case, entry=entry),
                                          "%r, with a function that returns False: %r" % (sig(errs)[:3], sig(want)[:3]))
                    elif bool(errs) != bool(want):
                        ctx.violation("listed-exception-not-like-false", dict(case, entry=entry),
                                      "invalid=%r, with a function that returns False invalid=%r" % (bool(errs), bool(want)))
                elif kind in ("listed", "subclass"):
                    if raised is not None:
                        ctx.violation("listed-exception-escaped", dict(case, entry=entry), "%s escaped" % type(raised).__name__)
                    elif len(errs) != 1:
                        ctx.violation("listed-exception-no-error", dict(case, entry=entry), "%d errors" % len(errs))
                    elif errs[0] is not None and (errs[0].cause is not exc or errs[0].__cause__ is not exc):
                        ctx.violation("cause-not-the-exception", dict(case, entry=entry), "cause is %r" % (errs[0].cause,))
                else:
                    if raised is not exc:
                        ctx.violation("unlisted-exception-not-propagated", dict(case, entry=entry),
                                      "got %r instead of the raised object" % (raised if raised is not None else errs,))
        # conforms()/check() on the checker directly
        try:
            r = chk.conforms("x", "custom")
            if kind == "unlisted":
                ctx.violation("unlisted-exception-not-propagated", {"draft": d, "direct": "conforms"}, "returned %r" % (r,))
            elif r is not False:
                ctx.violation("listed-exception-no-error", {"draft": d, "direct": "conforms"}, "returned %r" % (r,))
        except Exception as e:
            if kind != "unlisted" or e is not exc:
                ctx.violation("conforms-raised", {"draft": d, "direct": "conforms", "kind": kind}, "%r" % (e,))


CONFUSABLE = [True, 1, 1.0, False, 0, 0.0, -0.0, "1", "", None, [1], [True], [1.0], {"a": 1}, {"a": True}, 2, 2.0, "True"]
TYPE_SENSITIVE = {
    "is-bool": lambda x: isinstance(x, bool),
    "is-int-not-bool": lambda x: isinstance(x, int) and not isinstance(x, bool),
    "is-float": lambda x: isinstance(x, float),
    "truthy": lambda x: bool(x),
    "is-str": lambda x: isinstance(x, str),
    "list-of-bool": lambda x: isinstance(x, list) and all(isinstance(e, bool) for e in x),
    "neg-zero": lambda x: isinstance(x, float) and str(x) == "-0.0",
}


def stateful_sequences(ctx, rng, d):
    """One checker object, many calls in varying order: the answer for an instance must be the registered
    function's answer for THAT instance (true/1/1.0 are different JSON values), whatever was asked before."""
    cls = impl.CLS[d]
    for name, fn in TYPE_SENSITIVE.items():
        chk = jsonschema.FormatChecker(formats=())
        chk.checks(name)(fn)
        v = cls({"format": name}, format_checker=chk)
        seq = list(CONFUSABLE) * 2
        rng.shuffle(seq)
        for n, inst in enumerate(seq):
            want_ok = bool(fn(inst))
            case = {"draft": d, "custom_function": name, "instance": inst, "calls_before": [repr(x) for x in seq[:n]][-6:]}
            ctx.case([d, "stateful", name, repr(inst), n])
            ctx.count("cases")
            ctx.count("stateful_sequence_calls")
            try:
                if rng.random() < 0.5:
                    conf = chk.conforms(inst, name)
                    errs = list(v.iter_errors(inst))
                else:
                    errs = list(v.iter_errors(inst))
                    conf = chk.conforms(inst, name)
            except Exception as e:
                ctx.violation("raised", case, "%s: %s" % (type(e).__name__, str(e)[:120]))
                continue
            if conf is not want_ok:
                ctx.violation("conforms-disagrees-with-registered-function", case, "conforms() returned %r, the function returns %r for this instance" % (conf, want_ok))
            if bool(errs) == want_ok:
                ctx.violation("format-error-vs-registered-function", case, "%d format error(s), the function returns %r" % (len(errs), want_ok))


def reregistration_cases(ctx, d):
    """Registering a function under a name the checker already knows replaces BOTH the function and its `raises`."""
    import ipaddress
    cls = impl.CLS[d]
    plans = []
    for name, old_exc in (("date", ValueError("boom")), ("ipv4", ipaddress.AddressValueError("boom")), ("regex", __import__("re").error("boom")),
                          ("time", ValueError("boom")), ("ipv6", ipaddress.AddressValueError("boom"))):
        if name in jsonschema.FormatChecker.checkers:
            plans.append((name, None, old_exc))              # built-in registration first
    plans.append(("custom", (Listed, KeyError), Listed("boom")))
    plans.append(("custom", LookupError, KeyError("boom")))
    for name, first_raises, exc in plans:
        for second_raises, expect in (((), "propagate"), (Unlisted, "propagate"), (type(exc), "capture")):
            chk = jsonschema.FormatChecker() if first_raises is None else jsonschema.FormatChecker(formats=())
            if first_raises is not None:
                chk.checks(name, raises=first_raises)(lambda instance: True)

            def fn(instance, exc=exc):
                raise exc
            chk.checks(name, raises=second_raises)(fn)
            case = {"draft": d, "format": name, "first_raises": repr(first_raises), "second_raises": repr(second_raises), "raised": repr(exc)}
            ctx.case([d, "rereg", name, repr(first_raises), repr(second_raises)])
            ctx.count("cases")
            ctx.count("reregistration_cases")
            for how in ("iter_errors", "conforms"):
                try:
                    if how == "iter_errors":
                        errs = list(cls({"format": name}, format_checker=chk).iter_errors("x"))
                        got = ("errors", errs)
                    else:
                        got = ("returned", chk.conforms("x", name))
                except Exception as e:
                    got = ("raised", e)
                if expect == "propagate":
                    if got[0] != "raised" or got[1] is not exc:
                        ctx.violation("unlisted-exception-not-propagated", dict(case, via=how),
                                      "after re-registration without that exception in `raises` got %r instead of the raised object" % (got,))
                else:
                    ok = (got[0] == "errors" and len(got[1]) == 1 and got[1][0].cause is exc) or (got == ("returned", False))
                    if not ok:
                        ctx.violation("listed-exception-no-error", dict(case, via=how), "got %r" % (got,))


BAD_REGEXES = ["(unclosed", "[", "a{2,1}", "*a", "(?P<x", "\\", "(?<!a+)b", "a**", "(?z)", ")", "\\p{L}x(", "(?P<n>a)(?P<n>b)"]


def metaschema_formats_without_checker(ctx, d):
    """Nobody supplied a format checker: the `format` keywords the METASCHEMAS carry (regex for pattern and, in drafts
    6/7, patternProperties names; uri / uri-reference for ids) decide nothing either - through check_schema, through
    jsonschema.validate() and for a user-made class whose metaschema uses `format`."""
    from jsonschema import validators
    cls = impl.CLS[d]
    cands = []
    for bad in BAD_REGEXES:
        cands += [{"pattern": bad}, {"patternProperties": {bad: {}}}, {"properties": {"a": {"pattern": bad}}}, {"items": {"patternProperties": {bad: {"type": "null"}}}}]
    cands += [{"$schema": "::not a uri::", "type": "object"}, {impl.IDKW[d]: "http://not a uri/%zz", "type": "object"}, {"format": "(unclosed"},
              {"properties": {"a": {"$ref": "#/definitions/x y"}}, "definitions": {"x y": {}}}]
    for cand in cands:
        case = {"draft": d, "schema": cand, "no_format_checker": True}
        ctx.case([d, "meta-format", cand])
        ctx.count("cases")
        ctx.count("metaschema_format_cases")
        try:
            cls.check_schema(cand)
        except X.SchemaError as e:
            if e.validator == "format":
                ctx.violation("format-without-checker", dict(case, entry="check_schema"), "SchemaError from `format` in the metaschema: %s" % e.message[:100])
            continue        # rejected for another reason: not this property's business
        except Exception as e:
            ctx.violation("raised", dict(case, entry="check_schema"), type(e).__name__)
            continue
        # instances that never reach the pattern: only check_schema could object
        for inst in (12, None, [], [1], {}):
            try:
                jsonschema.validate(inst, cand, cls=cls)
            except X.SchemaError as e:
                ctx.violation("format-without-checker", dict(case, entry="validate", instance=inst), "SchemaError (%s): %s" % (e.validator, e.message[:100]))
                break
            except (X.ValidationError, X.RefResolutionError):
                pass
            except Exception as e:
                if not isinstance(e, __import__("re").error):
                    ctx.violation("raised", dict(case, entry="validate", instance=inst), type(e).__name__)
                break
    # a user-made dialect whose metaschema uses `format`
    meta = {"properties": {"title": {"format": "ipv4"}, "x-when": {"format": "date"}, "pattern": {"format": "regex"}}}
    D = validators.create(meta_schema=meta, validators=dict(cls.VALIDATORS), type_checker=cls.TYPE_CHECKER, id_of=cls.ID_OF)
    for cand in ({"title": "not an address"}, {"x-when": "yesterday"}, {"pattern": "(unclosed"}, {"title": "127.0.0.1", "x-when": 5}):
        ctx.count("metaschema_format_cases")
        ctx.case([d, "meta-format-custom", cand])
        for entry, fn in (("check_schema", lambda: D.check_schema(cand)), ("validate", lambda: jsonschema.validate(3, cand, cls=D))):
            try:
                fn()
            except Exception as e:
                ctx.violation("format-without-checker", {"draft": d, "schema": cand, "custom_metaschema": meta, "entry": entry},
                              "%s: %s" % (type(e).__name__, str(e)[:100]))


def late_registration_cases(ctx, d):
    """The validator is built first, the format is registered on its (long-lived) checker afterwards: an instance fails
    `format` exactly when the checker's conforms() is false AT THAT MOMENT."""
    cls = impl.CLS[d]
    for start in ("empty", "other-name", "default", "subset"):
        chk = {"empty": lambda: jsonschema.FormatChecker(formats=()), "default": jsonschema.FormatChecker,
               "subset": lambda: jsonschema.FormatChecker(formats=["ipv4"]),
               "other-name": lambda: _with(jsonschema.FormatChecker(formats=()), "vf-other", lambda x: True)}[start]()
        for schema, inst in (({"format": "vf-late"}, "x"), ({"items": {"format": "vf-late"}}, ["x", "y"]),
                             ({"properties": {"a": {"format": "vf-late"}}}, {"a": "x"})):
            v = cls(schema, format_checker=chk)
            case = {"draft": d, "schema": schema, "instance": inst, "checker_started_as": start}
            ctx.case([d, "late", start, schema])
            ctx.count("cases")
            ctx.count("late_registration_cases")
            steps = []
            try:
                steps.append(("before", len(list(v.iter_errors(inst))), chk.conforms("x", "vf-late")))
                chk.checks("vf-late")(lambda x: False)
                steps.append(("registered-rejecting", len(list(v.iter_errors(inst))), chk.conforms("x", "vf-late")))
                steps.append(("is_valid", v.is_valid(inst), None))
                chk.checks("vf-late")(lambda x: True)
                steps.append(("re-registered-accepting", len(list(v.iter_errors(inst))), chk.conforms("x", "vf-late")))
                del chk.checkers["vf-late"]
                steps.append(("removed", len(list(v.iter_errors(inst))), chk.conforms("x", "vf-late")))
            except Exception as e:
                ctx.violation("raised", case, "%s: %s after %r" % (type(e).__name__, str(e)[:80], steps))
                continue
            n = len(inst) if isinstance(inst, list) else 1
            want = [("before", 0, True), ("registered-rejecting", n, False), ("is_valid", False, None), ("re-registered-accepting", 0, True), ("removed", 0, True)]
            if steps != want:
                ctx.violation("format-verdict-not-conforms", case, "a validator built before the registration reports %r, the checker says %r" % (steps, want))


def _with(chk, name, fn):
    chk.checks(name)(fn)
    return chk


def run(ctx):
    impl.quiet()
    checkers = {"none": None, "FormatChecker()": jsonschema.FormatChecker()}
    for d in impl.DRAFTS:
        checkers["draft%d_format_checker" % d] = getattr(jsonschema, "draft%d_format_checker" % d)
    allnames = sorted(set(jsonschema.FormatChecker.checkers) | {n for c in checkers.values() if c for n in c.checkers})
    checkers["subset(date,ipv4)"] = jsonschema.FormatChecker(formats=[n for n in ("date", "ipv4") if n in jsonschema.FormatChecker.checkers])
    checkers["empty"] = jsonschema.FormatChecker(formats=())
    ctx.notes["registered_names"] = allnames
    rr = random.Random(1212)
    idx = 0
    for d in impl.DRAFTS:
        idx += 1
        if ctx.mine(idx):
            metaschema_formats_without_checker(ctx, d)
            late_registration_cases(ctx, d)
            custom_cases(ctx, rr, d)
            for _ in range(6):
                stateful_sequences(ctx, rr, d)
            reregistration_cases(ctx, d)
        for name in allnames + UNKNOWN:
            for cname, chk in checkers.items():
                idx += 1
                if not ctx.mine(idx):
                    continue
                for inst in NONSTRINGS + STRINGS:
                    check_builtin(ctx, d, name, chk, cname, inst, nested=(idx + len(repr(inst))) % 3 == 0)
    rng = ctx.rng
    for i in range(ctx.scale(500, 20000)):
        d = rng.choice(impl.DRAFTS)
        name = rng.choice(allnames + UNKNOWN)
        cname = rng.choice(list(checkers))
        inst = V.value(rng, 2, hostile=0.3) if rng.random() < 0.6 else rng.choice(STRINGS)
        check_builtin(ctx, d, name, checkers[cname], cname, inst, nested=rng.random() < 0.5)
    ctx.sample({"draft": 7, "schema": {"format": "ipv4"}, "instance": 2 ** 32, "checker": "FormatChecker()"})
    ctx.sample({"draft": 4, "schema": {"format": ""}, "instance": "x", "checker": "draft4_format_checker"})


def replay(ctx, rec):
    impl.quiet()
    c = rec["case"]
    if "checker" not in c or "schema" not in c or "format" not in str(c.get("schema")):
        custom_cases(ctx, random.Random(0), c["draft"])
        return
    checkers = {"none": None, "FormatChecker()": jsonschema.FormatChecker(), "empty": jsonschema.FormatChecker(formats=()),
                "subset(date,ipv4)": jsonschema.FormatChecker(formats=[n for n in ("date", "ipv4") if n in jsonschema.FormatChecker.checkers])}
    for d in impl.DRAFTS:
        checkers["draft%d_format_checker" % d] = getattr(jsonschema, "draft%d_format_checker" % d)

    def find(s):
        if isinstance(s, dict):
            if "format" in s and isinstance(s["format"], str):
                return s["format"]
            for v in s.values():
                r = find(v)
                if r is not None:
                    return r
        if isinstance(s, list):
            for v in s:
                r = find(v)
                if r is not None:
                    return r
        return None
    name = find(c["schema"])
    inst = c["instance"]
    k = next(iter(c["schema"]))
    if k == "items":
        inst = inst[0]
    elif k == "properties":
        inst = inst["a"]
    custom_cases(ctx, random.Random(0), c["draft"]) if c.get("checker") not in checkers else \
        check_builtin(ctx, c["draft"], name, checkers[c["checker"]], c["checker"], inst, nested=True)
