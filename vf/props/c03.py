"""C03 - validation is total: accepted schema + JSON instance never crashes or hangs.

Monitor: exception filter over the four entry points (+/- format checker) and
a logical step budget (sys.monitoring PY_START events in repo code).
Workload: anything check_schema lets through - every keyword x every JSON
shape of a fixed pool, gated by the real check_schema (so exactly the
alternatives the bundled metaschema admits survive), nested and paired.
"""
import random
import signal
import time

import jsonschema

from vf import impl
from vf.gen import values as V
from vf.gen.instance import InstGen
from vf.gen.schema import VOCAB, SchemaGen
from vf.model import eval as M
from vf.model import uri as U
from vf.obs.monitor import StepBudgetExceeded, StepCounter

ID = "C03"
LEVEL = "exploration"
RULE = ("deterministic core: every keyword name of any draft x 46 JSON value shapes, kept when the draft's "
        "check_schema accepts {kw: shape}; accepted cells are run alone, nested under items/properties/allOf/"
        "not/$ref, and paired (all pairs among keywords that consult each other, sampled otherwise) against 60 "
        "instances incl. 10**400, 1e308, 5e-324, 4000-digit integers and depth-12 nesting through is_valid, "
        "iter_errors, validate and jsonschema.validate with and without FormatChecker; seeded part: grammar "
        "schemas + regexes beyond the common subset + odd reference targets.  A case is (draft, schema, "
        "instance, entry point); non-trivial when the schema has >=1 vocabulary keyword; distinct by canonical JSON.")
ASSUMPTIONS = [
    "interpreter limits bound inputs: instance nesting <= 12, integers <= 4000 digits",
    "hang = more than 5e6 PY_START events in repo code for one operation (deterministic), or more than 10 s of the worker process's own user CPU time (ITIMER_VIRTUAL) for one operation on an input of a few hundred characters, confirmed by a second run alone under 20 s; wall clock only yields inconclusive",
    "$ref values are strings and regexes compile in Python re (as the property's quantifier says)",
]
REPORT_COUNTERS = ["operations", "accepted_cells", "rejected_cells", "raised_ValidationError", "raised_RefResolutionError",
                   "raised_UnknownType", "max_steps_one_operation"]

BUDGET = 5_000_000
# Work the step counter cannot see (the regex engine, big-number arithmetic: no Python function is entered) is bounded in
# CPU time *of this process* (ITIMER_VIRTUAL: user-mode time the process itself consumed - not wall clock, so machine load
# does not enter the verdict).  Inputs are a few hundred characters; the slowest operation of the unchanged tree uses
# milliseconds (reported as max_cpu_ms_one_operation).  A hit is confirmed by running the operation again, alone, under
# twice the budget; an unconfirmed hit only counts as inconclusive.
CPU_BUDGET_S = 10.0


class CpuBudgetExceeded(BaseException):
    pass


def _on_vtalrm(signum, frame):
    raise CpuBudgetExceeded()
# unknown http references are generated on purpose; the harness blocks and records the urlopen call
TRIPWIRE_EXPECTED = ("urlopen",)

SHAPES = [None, True, False, 0, 1, -1, 2, 1.5, 2.0, 0.5, -0.0, 1e308, 5e-324, 10 ** 400, -(10 ** 400), 2 ** 53 + 1,
          "", "a", "object", "any", "^a", "(?i)b", "#", "#/definitions/a",
          [], [{}], ["a"], ["a", "b"], [1], [True], [False], ["string", "null"], [{}, {}], [{"type": "string"}],
          ["a", 1], [[]],
          {}, {"a": {}}, {"a": []}, {"a": "b"}, {"a": ["b"]}, {"a": 1}, {"a": True}, {"a": False},
          {"type": "integer"}, {"^a": {"type": "string"}, "b$": {}}]

ALL_KEYWORDS = sorted(set(sum(VOCAB.values(), [])) | {"format", "required", "definitions", "default", "$schema"})

CONSULT = [("items", "additionalItems"), ("properties", "additionalProperties"),
           ("patternProperties", "additionalProperties"), ("minimum", "exclusiveMinimum"),
           ("maximum", "exclusiveMaximum"), ("if", "then"), ("if", "else"), ("properties", "required"),
           ("properties", "dependencies"), ("required", "dependencies"), ("type", "disallow"),
           ("items", "contains"), ("items", "uniqueItems"), ("enum", "const")]

ODD_REGEXES = ["(?i)a", "(a)\\1", "(?=a)a", "\\d+", "\\w", "\\bfoo\\b", "a(?!b)", "(?P<x>a)(?P=x)", "[\\d-]", "^\\S*$",
               "(?s).", "a|(?i)b", "(a)|(b)\\2", "\\Z", "(?m)^a$", "[^\\W_]"]

HOSTILE_INSTANCES = [10 ** 400, -(10 ** 400), 1e308, -1e308, 5e-324, 10 ** 3999, 2 ** 53 + 1, 1e-7, 1.5, -0.0,
                     "a" * 300, "\U0001d11e" * 5, "a\nb", "20200101", "1.2.3.4", "::1", "(", "a{99999999999}",
                     [10 ** 400, 1e308], {"a": 10 ** 400, "b": 1.5}, [[1], [True]], [{"a": 0}, {"a": False}],
                     {"": {"": {"": []}}}, ["a", "a"], [1, 1.0], {"a": {"a": {"a": {"a": 1}}}}]


REPETITIVE_NEAR_MISSES = [head + unit * n + tail
                          for head in ("", "a@", "http://", "1", "#/")
                          for unit, n in (("a", 48), ("1", 48), ("a.", 24), ("a-", 24), ("0:", 24), ("%41", 16), ("/a", 24), ("1.", 24), ("-", 48))
                          for tail in ("", " ", "!", "@b@", "..", "\n")]


def _compiles(p):
    import re
    import warnings
    try:
        with warnings.catch_warnings():
            warnings.simplefilter("ignore")
            re.compile(p)
        return True
    except Exception:
        return False


# the property's quantifier: every regular expression compiles in Python `re`
ODD_REGEXES = [p for p in ODD_REGEXES if _compiles(p)]


def _deep(n):
    x = 1
    for i in range(n):
        x = [x] if i % 2 else {"a": x}
    return x


# integers of more digits than the interpreter converts to text by default (sys.get_int_max_str_digits() == 4300)
HOSTILE_INSTANCES += [10 ** 5000, [10 ** 4400, 1], {"a": -(10 ** 4301)}]
HOSTILE_INSTANCES.append(_deep(12))
HOSTILE_INSTANCES.append([_deep(5), _deep(6), {"b": _deep(4)}])
INSTANCES = V.ALL_REPS + HOSTILE_INSTANCES
NEST_INSTANCES = [None, 1, 1.5, 10 ** 400, "a", [], [1, "a"], [[1], {"a": 1}], {}, {"a": 1}, {"a": "a", "b": [1]},
                  {"a": {"a": 1}}, [10 ** 400, 1e308], ["a", "a"]]


def shards(tier):
    return 8 if tier == "quick" else 16


def floors(tier):
    return {"operations": 100000, "accepted_cells": 800, "rejected_cells": 1000,
            "raised_ValidationError": 20000, "raised_RefResolutionError": 50, "raised_UnknownType": 20,
            "distinct_nontrivial": 20000, "entry:is_valid": 10000, "entry:iter_errors": 10000,
            "entry:validate": 2000, "entry:module_validate": 2000, "entry:with_format_checker": 2000,
            "pairs_consulting": 500, "hostile_string_schemas": 1000, "reused_validator_sequences": 500, "stacked_applicator_schemas": 40, "format_near_miss_cases": 1500, "repetitive_near_miss_cases": 8000}


# --------------------------------------------------------------------- known-finding classifiers

def _refs(schema, draft, acc, depth=0):
    if depth > 30:
        return
    if isinstance(schema, dict):
        if isinstance(schema.get("$ref"), str):
            acc.append(schema["$ref"])
        for v in schema.values():
            _refs(v, draft, acc, depth + 1)
    elif isinstance(schema, list):
        for v in schema:
            _refs(v, draft, acc, depth + 1)


def has_ref_to_nonschema(draft, schema, only_null=False):
    """Some $ref in the document designates (by our own resolver) a value that is not a schema."""
    acc = []
    _refs(schema, draft, acc)
    if not isinstance(schema, dict):
        return False
    model = M.Model(draft, schema)
    for r in acc:
        try:
            target, _ = model.resolve(model.root_base, r)
        except M.OutOfDomain:
            continue
        if only_null:
            if target is None:
                return True
        elif not isinstance(target, (dict, bool)):
            return True
    return False


_SAME_INSTANCE = {"allOf", "anyOf", "oneOf", "extends"}      # list (or single) of schemas applied in place
_SAME_INSTANCE_ONE = {"not", "if", "then", "else", "extends"}


def has_inplace_ref_cycle(draft, schema):
    """A cycle of schema applications that never descends into the instance
    (through $ref, allOf/anyOf/oneOf/not/if/then/else/extends/dependencies/
    draft-3 type & disallow schemas)."""
    if not isinstance(schema, dict):
        return False
    model = M.Model(draft, schema)
    state = {}

    def succ(node, base):
        if not isinstance(node, dict):
            return
        if isinstance(node.get("$ref"), str):
            try:
                t, tb = model.resolve(base, node["$ref"])
            except M.OutOfDomain:
                return
            yield t, tb
            return
        sid = node.get(model.idkw)
        if isinstance(sid, str) and sid:
            base = U.resolve(base, sid) if base else sid
        for k, v in node.items():
            if k in _SAME_INSTANCE and isinstance(v, list):
                for s in v:
                    yield s, base
            if k in _SAME_INSTANCE_ONE and isinstance(v, dict):
                yield v, base
            if k == "dependencies" and isinstance(v, dict):
                for s in v.values():
                    if isinstance(s, dict):
                        yield s, base
            if k in ("type", "disallow") and isinstance(v, list) and draft == 3:
                for s in v:
                    if isinstance(s, dict):
                        yield s, base

    def dfs(node, base, depth):
        if not isinstance(node, dict) or depth > 200:
            return False
        key = id(node)
        st = state.get(key)
        if st == 1:
            return True
        if st == 2:
            return False
        state[key] = 1
        for n, b in succ(node, base):
            if dfs(n, b, depth + 1):
                return True
        state[key] = 2
        return False

    # start from every schema node in the document (cycles below instance-descending keywords count too)
    stack = [schema]
    seen = set()
    while stack:
        n = stack.pop()
        if id(n) in seen:
            continue
        seen.add(id(n))
        if isinstance(n, dict):
            if dfs(n, model.root_base if n is schema else model.root_base, 0):
                return True
            stack.extend(n.values())
        elif isinstance(n, list):
            stack.extend(n)
    return False


def _frames(exc):
    out = []
    tb = exc.__traceback__
    while tb is not None:
        out.append((tb.tb_frame.f_code.co_filename.replace("\\", "/"), tb.tb_frame.f_code.co_name))
        tb = tb.tb_next
    return out


def _as_the_library_keys_them(schema):
    """A copy of `schema` in which reference strings that urllib normalises onto the empty reference ("?" - an empty
    query is dropped -, leading control characters and spaces are stripped) are written "#": the store is keyed by
    urlsplit(u).geturl(), so the library takes them for the root document."""
    from urllib.parse import urlsplit
    if isinstance(schema, list):
        return [_as_the_library_keys_them(x) for x in schema]
    if not isinstance(schema, dict):
        return schema
    out = {k: _as_the_library_keys_them(v) for k, v in schema.items()}
    r = schema.get("$ref")
    if isinstance(r, str):
        try:
            if urlsplit(r).geturl() in ("", "#") and r not in ("", "#"):
                out["$ref"] = "#"
        except ValueError:
            pass
    return out


def classify(draft, schema, exc):
    name = type(exc).__name__
    if name == "RecursionError" and not has_inplace_ref_cycle(draft, schema):
        schema = _as_the_library_keys_them(schema)
    if name == "ValueError" and "integer string conversion" in str(exc) and "Exceeds the limit" in str(exc):
        # the interpreter refuses to turn an integer of more than sys.get_int_max_str_digits() digits into text, and
        # every error message is built with %r of the instance / keyword value
        return "integer-beyond-the-interpreters-str-conversion-limit"
    if name == "ValueError":
        fr = _frames(exc)
        names = {n for f, n in fr}
        # raised by urllib.parse while an *id* is being made the base URI (never on the way of resolving a reference:
        # that part was repaired and must stay repaired)
        if fr and fr[-1][0].endswith("urllib/parse.py") and not names & {"resolve", "resolve_from_url", "resolve_fragment", "resolve_remote"} \
                and names & {"push_scope", "from_schema", "__init__", "in_scope"}:
            return "id-that-urllib-cannot-parse"
    if name == "RecursionError" and has_inplace_ref_cycle(draft, schema):
        return "ref-cycle-without-instance-descent"
    if name == "AttributeError" and "object has no attribute 'get'" in str(exc) and has_ref_to_nonschema(draft, schema):
        return "ref-to-non-schema-value"
    if name == "RecursionError" and has_ref_to_nonschema(draft, schema, only_null=True):
        # a null target is taken for "no schema given" and the root schema is applied again
        return "ref-to-non-schema-value"
    return None


# --------------------------------------------------------------------- the monitor

class Runner:
    def __init__(self, ctx):
        self.ctx = ctx
        self.steps = StepCounter(BUDGET)
        self.fc = jsonschema.FormatChecker()
        self.k = 0
        self.max_cpu = 0.0
        self.cpu_hits = 0
        signal.signal(signal.SIGVTALRM, _on_vtalrm)

    def _within_cpu_budget(self, fn, budget):
        t0 = time.process_time()
        signal.setitimer(signal.ITIMER_VIRTUAL, budget)
        try:
            fn()
        finally:
            signal.setitimer(signal.ITIMER_VIRTUAL, 0)
            used = time.process_time() - t0
            if used > self.max_cpu:
                self.max_cpu = used

    def op(self, draft, schema, inst, entry, fn):
        ctx = self.ctx
        if self.cpu_hits >= 3:
            # three confirmed hangs in this shard: the verdict is settled, the rest of the workload would only repeat them
            ctx.count("operations_skipped_after_three_confirmed_hangs")
            return
        self.steps.reset()
        ctx.count("operations")
        ctx.count("entry:" + entry.split("+")[0])
        if "+fc" in entry:
            ctx.count("entry:with_format_checker")
        try:
            try:
                self._within_cpu_budget(fn, CPU_BUDGET_S)
            except CpuBudgetExceeded:
                self.steps.reset()
                try:
                    self._within_cpu_budget(fn, 2 * CPU_BUDGET_S)
                    ctx.count("cpu_budget_hit_not_confirmed_inconclusive")
                except CpuBudgetExceeded:
                    self.cpu_hits += 1
                    ctx.violation("hang", {"draft": draft, "schema": schema, "instance": inst, "entry": entry},
                                  "did not finish within %.0f s of the process's own CPU time (and again not within %.0f s, run alone)"
                                  % (CPU_BUDGET_S, 2 * CPU_BUDGET_S))
                    return
            ctx.count("returned")
        except impl.ALLOWED_EXC as e:
            ctx.count("raised_" + type(e).__name__)
            if isinstance(e, jsonschema.ValidationError) and not entry.startswith(("validate", "module_validate")):
                # is_valid reports by its return value, iter_errors by yielding: a ValidationError RAISED out of them is not
                # "reporting ValidationError(s)"
                ctx.violation("exception", {"draft": draft, "schema": schema, "instance": inst, "entry": entry},
                              "%s raised out of %s: %s" % (type(e).__name__, entry, str(e.message)[:120]))
        except StepBudgetExceeded:
            ctx.violation("hang", {"draft": draft, "schema": schema, "instance": inst, "entry": entry},
                          "more than %d PY_START events in repo code" % BUDGET)
        except Exception as e:
            mech = classify(draft, schema, e)
            ctx.violation("exception", {"draft": draft, "schema": schema, "instance": inst, "entry": entry},
                          "%s: %s" % (type(e).__name__, str(e)[:200]), mech=mech)
            ctx.count("escaped:" + type(e).__name__)

    def case(self, draft, schema, inst, full=False):
        ctx = self.ctx
        cls = impl.CLS[draft]
        self.k += 1
        nontrivial = isinstance(schema, dict) and len(schema) > 0
        ctx.case([draft, schema, inst], nontrivial=nontrivial)
        self.op(draft, schema, inst, "is_valid", lambda: cls(schema).is_valid(inst))
        self.op(draft, schema, inst, "iter_errors", lambda: list(cls(schema).iter_errors(inst)))
        if full or self.k % 4 == 0:
            self.op(draft, schema, inst, "validate", lambda: cls(schema).validate(inst))
        if full or self.k % 4 == 1:
            self.op(draft, schema, inst, "module_validate", lambda: jsonschema.validate(inst, schema, cls=cls))
        if full or self.k % 4 == 2:
            self.op(draft, schema, inst, "iter_errors+fc",
                    lambda: list(cls(schema, format_checker=self.fc).iter_errors(inst)))
        if full or self.k % 8 == 3:
            self.op(draft, schema, inst, "module_validate+fc",
                    lambda: jsonschema.validate(inst, schema, cls=cls, format_checker=self.fc))

    def fc_case(self, draft, schema, inst):
        ctx = self.ctx
        cls = impl.CLS[draft]
        ctx.case([draft, schema, inst], nontrivial=True)
        self.op(draft, schema, inst, "is_valid+fc", lambda: cls(schema, format_checker=self.fc).is_valid(inst))
        self.op(draft, schema, inst, "iter_errors+fc", lambda: list(cls(schema, format_checker=self.fc).iter_errors(inst)))

    def reused(self, draft, schema, insts):
        """One validator object taken through every entry point over a sequence of instances: whatever an earlier
        call did (also one that ended in RefResolutionError / UnknownType) must not make a later one escape."""
        cls = impl.CLS[draft]
        try:
            v = cls(schema)
            vf = cls(schema, format_checker=self.fc)
        except Exception:
            return
        self.ctx.count("reused_validator_sequences")
        for inst in insts:
            self.op(draft, schema, inst, "is_valid[reused validator]", lambda: v.is_valid(inst))
            self.op(draft, schema, inst, "iter_errors[reused validator]", lambda: list(v.iter_errors(inst)))
            self.op(draft, schema, inst, "validate[reused validator]", lambda: v.validate(inst))
            self.op(draft, schema, inst, "iter_errors+fc[reused validator]", lambda: list(vf.iter_errors(inst)))
            self.op(draft, schema, inst, "is_valid[reused validator]", lambda: v.is_valid(inst))


def gate(ctx, d, schema):
    try:
        return impl.accepts(d, schema)
    except Exception as e:
        ctx.count("check_schema_exception_delegated_to_C11:" + type(e).__name__)
        return False


def accepted_cells(ctx, d):
    cells = []
    own = set(VOCAB[d]) | {"format", "required", "definitions", "default"}
    for kw in ALL_KEYWORDS:
        if kw not in own:
            continue        # other drafts' keywords are ignored by this draft: C10's business
        for shape in SHAPES:
            s = {kw: shape}
            if gate(ctx, d, s):
                cells.append((kw, shape))
            else:
                ctx.count("rejected_cells_all")
    return cells


def nestings(d, s):
    yield s
    yield {"items": s}
    yield {"properties": {"a": s}, "additionalProperties": s}
    yield {"definitions": {"x": s}, "$ref": "#/definitions/x"}
    if d == 3:
        yield {"extends": [s, {}], "type": [s, "null"]}
    else:
        yield {"allOf": [s], "not": s}
        yield {"oneOf": [s, {"type": "null"}], "anyOf": [s, s]}
    if d >= 6:
        yield {"contains": s, "propertyNames": s}
    if d >= 7:
        yield {"if": s, "then": s, "else": s}


def run(ctx):
    impl.quiet()
    R = Runner(ctx)
    R.steps.start()
    try:
        _core(ctx, R)
        _random(ctx, R)
    finally:
        R.steps.reset()
        R.steps.stop()
    ctx.notes["max_steps_one_operation_shard%d" % ctx.shard] = R.steps.max_seen
    ctx.notes["max_cpu_ms_one_operation_shard%d" % ctx.shard] = round(R.max_cpu * 1000, 1)
    if ctx.shard == 0:
        ctx.count("max_steps_one_operation", R.steps.max_seen)


def _core(ctx, R):
    idx = 0
    for d in impl.DRAFTS:
        cells = accepted_cells(ctx, d)
        if ctx.shard == 0:
            ctx.count("accepted_cells", len(cells))
            ctx.count("rejected_cells", len(set(VOCAB[d]) | {"format", "required", "definitions", "default"}) * len(SHAPES) - len(cells))
        # single cells, nested
        for kw, shape in cells:
            for s in nestings(d, {kw: shape}):
                idx += 1
                if not ctx.mine(idx):
                    continue
                if s is not None and not gate(ctx, d, s):
                    ctx.count("nesting_rejected")
                    continue
                insts = INSTANCES if s.get(kw, None) is shape and len(s) == 1 else NEST_INSTANCES
                for inst in insts:
                    R.case(d, s, inst)
        # consulting pairs: all accepted combinations
        bykw = {}
        for kw, shape in cells:
            bykw.setdefault(kw, []).append(shape)
        for a, b in CONSULT:
            for sa in bykw.get(a, []):
                for sb in bykw.get(b, []):
                    idx += 1
                    if not ctx.mine(idx):
                        continue
                    s = {a: sa, b: sb}
                    if not gate(ctx, d, s):
                        continue
                    ctx.count("pairs_consulting")
                    for inst in INSTANCES:
                        R.case(d, s, inst)
        # sampled arbitrary pairs / triples (seed independent)
        rr = random.Random(99 + d)
        for _ in range(ctx.scale(1200, 12000)):
            idx += 1
            picks = [rr.choice(cells) for _ in range(rr.choice([2, 2, 3]))]
            if not ctx.mine(idx):
                continue
            s = {}
            for kw, shape in picks:
                s[kw] = shape
            if not gate(ctx, d, s):
                continue
            ctx.count("pairs_sampled")
            for inst in rr.sample(INSTANCES, 10):
                R.case(d, s, inst)
        # odd regexes and references
        for rxp in ODD_REGEXES:
            idx += 1
            if not ctx.mine(idx):
                continue
            for s in ({"pattern": rxp}, {"patternProperties": {rxp: {"type": "integer"}}},
                      {"patternProperties": {"a": {}, rxp: {}}, "additionalProperties": False},
                      {"patternProperties": {rxp: {}, "b": {}}, "additionalProperties": {"type": "null"}},
                      {"properties": {"a": {}}, "patternProperties": {rxp: {}, "(b)": {}}, "additionalProperties": False}):
                if not gate(ctx, d, s):
                    continue
                ctx.count("odd_regex_schemas")
                for inst in ["a", "A", "aa", "foo", "b", {"a": 1}, {"b": 1, "B": 2}, {"aa": 1, "bb": 2, "foo": 3},
                             {"ab": 1}, {}, 1]:
                    R.case(d, s, inst)
        for s, insts in _hostile_string_schemas(d):
            idx += 1
            if not ctx.mine(idx):
                continue
            if not gate(ctx, d, s):
                ctx.count("hostile_string_schema_rejected")
                continue
            ctx.count("hostile_string_schemas")
            for inst in insts:
                R.case(d, s, inst, full=True)
        # every format the shipped checker knows (and two it does not), against near-misses of every format
        from jsonschema import FormatChecker as _FC
        for f in sorted(_FC.checkers) + ["date-time", "unknown-format"]:
            for nested in (False, True):
                idx += 1
                if not ctx.mine(idx):
                    continue
                s = {"format": f} if not nested else {"properties": {"v": {"format": f}}, "items": {"format": f}}
                if not gate(ctx, d, s):
                    continue
                for text in FORMAT_NEAR_MISSES:
                    ctx.count("format_near_miss_cases")
                    R.case(d, s, text if not nested else ({"v": text} if len(text) % 2 else [text, 1, None]), full=True)
            # ... and against long repetitive strings that just miss (what a backtracking matcher chokes on; the step
            # counter sees nothing of it, the CPU-time budget does)
            idx += 1
            if ctx.mine(idx):
                s = {"format": f}
                if gate(ctx, d, s):
                    for text in REPETITIVE_NEAR_MISSES:
                        ctx.count("repetitive_near_miss_cases")
                        R.fc_case(d, s, text)
        for s in _ref_schemas(d):
            idx += 1
            if not ctx.mine(idx):
                continue
            if not gate(ctx, d, s):
                continue
            ctx.count("odd_ref_schemas")
            for inst in [1, "a", {}, {"p": 1}, {"a": {"a": 1}}, [1, [2]], None]:
                R.case(d, s, inst)
            R.reused(d, s, [1, {"p": 1}, {}, {"a": {"a": 1}}, [1, [2]], {"p": 1}, "a"])
            if isinstance(s, dict) and impl.IDKW[d] not in s:
                # the same under a root id (a base URI is pushed for every call)
                R.reused(d, dict(s, **{impl.IDKW[d]: "http://vf.example/root.json"}), [{"p": 1}, {}, [1, [2]], {"a": {"a": 1}}, 1])
        for s, insts in _stacked(d):
            idx += 1
            if not ctx.mine(idx):
                continue
            if not gate(ctx, d, s):
                ctx.count("stacked_schema_rejected")
                continue
            ctx.count("stacked_applicator_schemas")
            for inst in insts:
                R.case(d, s, inst, full=True)


DEEP = 22


def _stacked(d):
    """(schema, instances) where one applicator is stacked DEEP levels (in the schema, or - through a recursive reference -
    in the instance) over a leaf the instance fails or passes: the number of steps grows with the depth, not with 2**depth."""
    def chain(wrap, leaf):
        s = leaf
        for _ in range(DEEP):
            s = wrap(s)
        return s
    null = {"type": "null"}
    out = []
    if d >= 4:
        out += [(chain(lambda s: {"anyOf": [{"type": "string"}, s]}, null), [1, None, "s"]),
                (chain(lambda s: {"anyOf": [s, {"type": "string"}]}, null), [1, None]),
                (chain(lambda s: {"oneOf": [{"type": "string"}, s]}, null), [1, None]),
                (chain(lambda s: {"allOf": [s, {}]}, null), [1, None]),
                (chain(lambda s: {"allOf": [{"minimum": 0}, s, {"maximum": 0}]}, null), [1, None]),
                (chain(lambda s: {"not": {"not": s}}, null), [1, None]),
                (chain(lambda s: {"dependencies": {"a": s}}, {"required": ["b"]}), [{"a": 1}, {"a": 1, "b": 1}, {}]),
                ({"anyOf": [{"type": "string"}, {"type": "array", "items": {"$ref": "#"}}]}, [_nest_list(DEEP, 5), _nest_list(DEEP, "s")]),
                ({"oneOf": [{"type": "string"}, {"type": "array", "items": {"$ref": "#"}}]}, [_nest_list(DEEP, 5), _nest_list(DEEP, "s")]),
                ({"definitions": {"t": {"anyOf": [{"type": "null"}, {"properties": {"a": {"$ref": "#/definitions/t"}}, "required": ["a"]}]}},
                  "$ref": "#/definitions/t"}, [_deep_obj(DEEP, 5), _deep_obj(DEEP, None)])]
    else:
        out += [(chain(lambda s: {"extends": [s, {}]}, null), [1, None]),
                (chain(lambda s: {"extends": s}, null), [1, None]),
                (chain(lambda s: {"type": [s, "string"]}, null), [1, None, "s"]),
                (chain(lambda s: {"type": ["string", s]}, null), [1, None]),
                (chain(lambda s: {"disallow": [{"disallow": [s]}]}, null), [1, None]),
                (chain(lambda s: {"dependencies": {"a": s}}, {"properties": {"b": {"required": True}}}), [{"a": 1}, {"a": 1, "b": 1}]),
                ({"type": ["string", {"type": "array", "items": {"$ref": "#"}}]}, [_nest_list(DEEP, 5), _nest_list(DEEP, "s")])]
    if d >= 6:
        out += [(chain(lambda s: {"contains": s}, null), [_nest_list(DEEP, 5), _nest_list(DEEP, None)]),
                (chain(lambda s: {"propertyNames": {"anyOf": [{"maxLength": 0}, s]}}, {"maxLength": 0}), [{"ab": 1}, {"": 1}])]
    if d >= 7:
        out += [(chain(lambda s: {"if": {}, "then": s}, null), [1, None]), (chain(lambda s: {"if": False, "else": s}, null), [1, None]),
                (chain(lambda s: {"if": s, "then": {"type": "null"}, "else": {"type": "integer"}}, null), [1, None, "s"])]
    out += [(chain(lambda s: {"items": s}, null), [_nest_list(DEEP, 5), _nest_list(DEEP, None)]),
            (chain(lambda s: {"properties": {"a": s}}, null), [_deep_obj(DEEP, 5), _deep_obj(DEEP, None)]),
            (chain(lambda s: {"additionalProperties": s, "properties": {"b": {}}}, null), [_deep_obj(DEEP, 5), _deep_obj(DEEP, None)])]
    return out


def _nest_list(n, leaf):
    x = leaf
    for _ in range(n):
        x = [x]
    return x


def _deep_obj(n, leaf):
    x = leaf
    for _ in range(n):
        x = {"a": x}
    return x


HOSTILE_STRINGS = ["%", "%s", "%d", "%(x)s", "%%", "50%", "{}", "{0}", "{error}", "{file_name}", "\\", "'", '"', "a\nb", "\x00",
                   "\U0001d11e", "%r", "$", "^", "a b", "<>", "\t", "%5", "% d"]
HOSTILE_REGEXES = ["%", "^[0-9]+%$", "%s", "%d%%", "\\{\\}", "a{1}", "'", '"', "%(x)s", "^\\$", "\\\\", "{", "%r|x", "\\x00"]


FORMAT_NEAR_MISSES = [
    "2021-02-30", "2021-13-01", "0000-00-00", "9999-99-99", "2000-02-29", "1900-02-29", " 2021-01-01", "2021-01-01\n", "2021-1-1", "2021-00-10",
    "2021-02-30T00:00:00Z", "\u0661\u0662\u0663\u0664-\u0660\u0661-\u0660\u0661", "24:00:00", "25:61:61", "12:00:60", "23:59:59", "1:2:3", "12:00",
    "1.2.3.256", "1.2.3", "1.2.3.4", "+1.2.3.4", "\uff11.\uff12.\uff13.\uff14", "0x1.2.3.4", "1.2.3.4/24", "1.2.3.4.", "::1::", "12345::", "::", "::ffff:1.2.3.999",
    "1::2::3", "fe80::1%eth0", "[", "(", "a**", "\\", "(?P<n>", "[a-", "a{2,1}", "(?<=a+)b", "\\1", "a@b", "@", "a@", "@b", "a b@c", "\u00e9@\u00e9.com",
    "xn--", "xn--a", "\u00e9.com", "-.com", "a..b", ".....", "a" * 300, "\x00", "", " ", "\ud800", "\U0001d11e", "%", "{}", "1e5", "-1", "null"]


def _hostile_string_schemas(d):
    """Strings with %-, {}-, quote-, backslash- and control characters at every place where the
    implementation embeds schema or instance text in a message."""
    H = HOSTILE_STRINGS
    for i, h in enumerate(H):
        h2 = H[(i + 1) % len(H)]
        yield {"properties": {h: {"type": "null"}}, "additionalProperties": False}, [{h: 1, h2: 2}, {h2: 1, "x": 2}, {h: None}]
        yield {"dependencies": {h: [h2, "zz"]}}, [{h: 1}, {h: 1, h2: 2}]
        yield {"enum": [h, [h], {h: h2}]}, [h2, h, [h2], {h: h}]
        yield {"minLength": 50}, [h]
        yield {"maxLength": 0, "type": "integer"}, [h]
        yield {"format": h}, [h2, "x"]
        yield {"type": "object", "properties": {"a": {"enum": [h]}}}, [{"a": h2}]
        yield {"items": [{"type": "null"}], "additionalItems": False}, [[None, h, h2]]
        yield {"uniqueItems": True}, [[h, h], [{h: 1}, {h: 1}]]
        if d == 3:
            yield {"properties": {h: {"required": True}}}, [{}, {h2: 1}]
            yield {"disallow": [{"enum": [h]}]}, [h]
            yield {"dependencies": {h: h2}}, [{h: 1}]
            yield {"type": [{"enum": [h]}, "null"]}, [h2]
            yield {"extends": [{"enum": [h]}]}, [h2]
        else:
            yield {"required": [h, h2]}, [{}, {h: 1}]
            yield {"not": {"enum": [h], "description": h2}}, [h]
            yield {"oneOf": [{"enum": [h]}, {"type": "string", "title": h2}]}, [h, 1]
            yield {"anyOf": [{"enum": [h]}, {"minLength": 99, "title": h}]}, [h2]
            yield {"maxProperties": 0}, [{h: h2}]
        if d >= 6:
            yield {"const": h}, [h2]
            yield {"const": {h: [h2]}}, [{h: [h]}]
            yield {"propertyNames": {"enum": [h]}}, [{h2: 1}]
            yield {"contains": {"enum": [h]}}, [[h2, 1]]
        if d >= 7:
            yield {"if": {"enum": [h]}, "then": {"enum": [h2]}, "else": {"enum": [h]}}, [h, h2]
    for i, rx_ in enumerate(HOSTILE_REGEXES):
        if not _compiles(rx_):
            continue
        h = H[i % len(H)]
        yield {"pattern": rx_}, [h, "zz", "%", "5%", "{}"]
        yield {"patternProperties": {rx_: {"type": "null"}}, "additionalProperties": False}, [{"zz": 1, h: 2}, {"%": 1, "5%": 2, "q": 3}, {"zz": 1}]
        yield {"patternProperties": {rx_: {"type": "null"}, "^a": {}}, "additionalProperties": {"type": "null"}}, [{"zz": 1, h: 2}]
        yield {"patternProperties": {rx_: {"type": "null"}}, "properties": {h: {}}, "additionalProperties": False}, [{"zz": 1, h: 2, "yy": 3}]
        if d >= 6:
            yield {"propertyNames": {"pattern": rx_}}, [{"zz": 1, h: 2}]


HOSTILE_URLS = ["http://[bad", "http://[::1", "//[", "http://a]b/", "http://exa\u2100mple.com/x", "http://[v1.x]:80/", "[", "http://a b/%zz",
                "::", "http://:80", "\x00", "http://h/\ud7ff", "urn:", "#", "?", "http://h/p?q#f#g", "//h",
                "HTTP://H/P", "http://h:port/"]


def _ref_schemas(d):
    idk = impl.IDKW[d]
    yield {"required": ["a"] if d != 3 else True, "properties": {"p": {"$ref": "#/required"}}}
    yield {"enum": [1, "a"], "properties": {"p": {"$ref": "#/enum/0"}}}
    yield {"enum": [1, "a"], "items": {"$ref": "#/enum/1"}}
    yield {"default": None, "$ref": "#/default"}
    yield {"default": [], "properties": {"p": {"$ref": "#/default"}}}
    yield {"$ref": "#/nowhere"}
    yield {"properties": {"p": {"$ref": "#/definitions/missing"}}, "definitions": {}}
    yield {"$ref": "http://unknown.invalid/schema.json"}
    yield {"$ref": "nosuchscheme:whatever"}
    yield {"items": {"$ref": "other.json#/x"}}
    yield {"$ref": "#"}
    yield {"properties": {"a": {"$ref": "#"}}}
    yield {"items": {"$ref": "#"}, "properties": {"a": {"$ref": "#"}}}
    yield {"definitions": {"a": {"$ref": "#/definitions/b"}, "b": {"$ref": "#/definitions/a"}}, "$ref": "#/definitions/a"}
    yield {"definitions": {"a": {"$ref": "#/definitions/b"}, "b": {"$ref": "#/definitions/a"}},
           "properties": {"p": {"$ref": "#/definitions/a"}}}
    if d != 3:
        yield {"allOf": [{"$ref": "#"}]}
        yield {"definitions": {"a": {"anyOf": [{"$ref": "#/definitions/a"}, {}]}}, "items": {"$ref": "#/definitions/a"}}
        yield {"not": {"$ref": "#"}}
    else:
        yield {"extends": {"$ref": "#"}}
        yield {"type": [{"$ref": "#"}]}
    yield {idk: "http://x/y/", "$ref": "#/definitions/a", "definitions": {"a": {"type": "integer"}}}
    yield {idk: "http://x/y/z.json", "properties": {"a": {"$ref": "z.json#/definitions/a"}},
           "definitions": {"a": {"type": "integer"}}}
    yield {"$ref": "http://json-schema.org/draft-0%d/schema#" % d}
    yield {"$ref": "http://json-schema.org/draft-04/schema#/definitions/positiveInteger"}
    yield {"$ref": "http://json-schema.org/draft-07/schema#/definitions/nonNegativeInteger"}
    yield {"$ref": "#/definitions/a~1b", "definitions": {"a/b": {"type": "string"}}}
    yield {"$ref": "#/definitions/%25", "definitions": {"%": {"type": "string"}}}
    yield {"$ref": "#/items/0", "items": [{"type": "string"}]}
    yield {"$ref": "#/items/5", "items": [{"type": "string"}]}
    yield {"$ref": "#/items/x", "items": [{"type": "string"}]}
    yield {"$ref": "#/items/" + "9" * 5000, "items": [{"type": "string"}]}        # more digits than int() converts
    yield {"properties": {"p": {"$ref": "#/items/" + "1" * 4301}}, "items": [{"type": "string"}]}
    yield {"$ref": "#/definitions/a/type/0", "definitions": {"a": {"type": "string"}}}
    # strings urllib refuses to take apart (unbalanced brackets in the authority, characters that NFKC-normalise into
    # URL syntax) and other unlikely URLs, as references and as ids
    for u in HOSTILE_URLS:
        yield {"$ref": u}
        yield {"properties": {"p": {"$ref": u + "#/x"}}, "items": {"$ref": u}}
        yield {idk: u, "type": "object"}
        yield {idk: u, "properties": {"p": {"$ref": "#/definitions/a"}}, "definitions": {"a": {"type": "integer"}}}
        yield {"properties": {"p": {idk: u, "items": {"$ref": "x.json"}}}, "items": {idk: u}}
    yield {"$ref": ""}
    yield {"$ref": "#/"}
    yield {"$ref": "#/definitions/"}


def _random(ctx, R):
    rng = ctx.rng
    n = ctx.scale(800, 12000)
    for i in range(n):
        d = impl.DRAFTS[i % 4]
        g = SchemaGen(rng, d, maxdepth=rng.choice([1, 2, 3]))
        schema = g.schema()
        # sprinkle unusual but accepted values
        if rng.random() < 0.5 and isinstance(schema, dict):
            schema = _sprinkle(rng, d, schema)
        if not gate(ctx, d, schema):
            ctx.count("random_rejected")
            continue
        ig = InstGen(rng, schema)
        for inst in ig.batch(4) + rng.sample(HOSTILE_INSTANCES, 3):
            R.case(d, schema, inst)
        if i % 3 == 0:
            R.reused(d, schema, ig.batch(3) + rng.sample(HOSTILE_INSTANCES, 2))
        if i % 211 == 0:
            ctx.sample({"draft": d, "schema": schema, "instance": ig.directed()})


def _sprinkle(rng, d, schema):
    s = dict(schema)
    for _ in range(rng.randrange(1, 3)):
        kw = rng.choice(ALL_KEYWORDS)
        s[kw] = rng.choice(SHAPES)
    if rng.random() < 0.3:
        s["pattern"] = rng.choice(ODD_REGEXES)
    if rng.random() < 0.3:
        s["format"] = rng.choice(["date", "ipv4", "ipv6", "regex", "email", "idn-hostname", "time", "ip-address",
                                  "unknown", "", "idn-email"])
    return s


def replay(ctx, rec):
    impl.quiet()
    c = rec["case"]
    R = Runner(ctx)
    R.steps.start()
    try:
        R.case(c["draft"], c["schema"], c["instance"], full=True)
    finally:
        R.steps.stop()
