"""C18 - validators that share no resolver are independent under any interleaving.

Monitor: schedule controller (enumerated / sampled interleavings of next()
steps of 2-3 error iterators of different validator objects) and thread
stress (1 us switch interval + yield injection from a sys.monitoring
PY_START callback in repo code).  Each validator must reproduce the error
sequence (threads: multiset) it gives when run alone.
"""
import itertools
import random
import sys
import threading
import time

import jsonschema
from jsonschema import RefResolver, validators
from jsonschema import exceptions as X

from vf import impl
from vf.gen import refs as R
from vf.obs.fingerprint import fp
from vf.obs import monitor

ID = "C18"
LEVEL = "fault_enumeration"
RULE = ("groups of 2-3 validator objects (no resolver passed, or distinct resolvers) built to collide on every key a "
        "shared cache could use: same base URI, same $ref strings designating different definitions, same remote URLs "
        "served by different stores / handlers, same regular expressions, same format names bound to different "
        "functions on different checker instances, same type names redefined differently via extend; ALL interleavings "
        "of their next() steps when there are <= 924, else 200 sampled; thread runs: 2-8 threads x whole validations "
        "with sys.setswitchinterval(1e-6) and sleep(0) injected at repo function entries.  A case is (group, schedule); "
        "non-trivial when at least two iterators yield >= 1 error; distinct by (group, schedule).")
ASSUMPTIONS = ["CPython with the GIL; preemption forced by a 1 us switch interval and yield injection",
               "thread runs use whole validations, step-level interleaving is cooperative only (as the property says)"]
REPORT_COUNTERS = ["groups", "schedules", "schedules_exhaustive_groups", "thread_runs", "thread_validations",
                   "thread_runs_20plus_switches", "observed_switches", "collision:refs", "collision:remote",
                   "collision:regex", "collision:format", "collision:types", "collision:same-schema-object",
                   "distinct_interleaving_signatures"]
TRIPWIRE_EXPECTED = ()


def shards(tier):
    return 8 if tier == "quick" else 16


def floors(tier):
    f = {"groups": 300, "schedules": 5000, "schedules_exhaustive_groups": 100, "thread_runs": 100,
         "thread_validations": 5000, "thread_runs_20plus_switches": 50, "observed_switches": 2000,
         "distinct_interleaving_signatures": 50}
    for k in ("refs", "remote", "regex", "format", "types", "same-schema-object", "verdicts", "dollar-schema", "decimal", "handed-on-store", "custom-scheme-root", "shared-handler-document", "types-argument", "unserved-by-some", "late-registration", "subclassed-keyword"):
        f["collision:" + k] = 25 if k in ("refs", "regex", "same-schema-object", "verdicts", "handed-on-store", "custom-scheme-root") else 15
    return f


# ----------------------------------------------------------------------- colliding groups

LEAVES = [{"type": "integer"}, {"type": "string"}, {"type": "array"}, {"minimum": 10}, {"maxLength": 1}, {"enum": ["x"]},
          {"type": "null"}, {"maximum": -5}, {"type": "boolean"}, {"minLength": 5}]


def make_member(rng, d, k, kinds, link=None):
    """One validator of a group; `k` is its index (members differ exactly where a shared cache would confuse them)."""
    idk = impl.IDKW[d]
    leafA, leafB = rng.sample(LEAVES, 2)
    props = {}
    # `deep` changes the base URI while it is being evaluated: a validator suspended inside it holds a scope
    # that would misdirect the relative references of any validator sharing its resolver
    defs = {"a": leafA, "b": leafB,
            "deep": {idk: "http://other.example/sub/", "properties": {"x": {"items": {"$ref": R.ROOT_URL + "#/definitions/a"}}}}}
    store = None
    handlers = {}
    cls = impl.CLS[d]
    fc = None
    if "refs" in kinds:
        props["r1"] = {"$ref": "#/definitions/a"}
        props["r2"] = {"$ref": R.ROOT_URL + "#/definitions/b"}
        props["r3"] = {"$ref": "#/definitions/deep"}
        # names whose pointer spelling is not a fixed point of unescaping / percent-decoding: the key "~1" is written
        # "~01", and a second unescape would turn it into the key "/" (which exists too, with another meaning)
        hostile = [("~1", "~01"), ("/", "~1"), ("~0", "~00"), ("~", "~0"), ("~01", "~001"), ("%25", "%2525"), ("%", "%25"),
                   ("%2525", "%252525"), ("a~1b", "a~01b"), ("a/b", "a~1b")]
        for j, (key, spelled) in enumerate(rng.sample(hostile, 6)):
            defs[key] = rng.choice(LEAVES)
            props["h%d" % j] = {"$ref": "#/definitions/" + spelled}
    if "remote" in kinds:
        doc = {"definitions": {"q": rng.choice(LEAVES)}, "items": {"$ref": "#/definitions/q"}}
        hdoc = {"properties": {"v": rng.choice(LEAVES)}}
        store = {R.STORE_DIR + "shared.json": doc}
        handlers = {"vf": (lambda url, hdoc=hdoc: hdoc)}
        props["m1"] = {"$ref": R.STORE_DIR + "shared.json"}
        props["m2"] = {"$ref": R.STORE_DIR + "shared.json#/definitions/q"}
        props["m3"] = {"$ref": R.HANDLER_DIR + "shared.json"}
    if "shared-handler-document" in kinds:
        # every member's handler hands out the SAME document object (a constant of the program) under the member's own
        # URL; the document has no id and refers to a neighbour, which each member's handler serves differently
        link = link if link is not None else {}
        shared_doc = link.setdefault("shared_doc", {"properties": {"v": {"$ref": "part.json"}, "w": {"items": {"$ref": "part.json#/definitions/q"}}}})
        site = "http://shared.example/site%d/" % k        # (a scheme urllib joins relative references under)
        part = {"type": ["integer", "string", "array", "null"][k % 4], "definitions": {"q": rng.choice(LEAVES)}}
        def serve(url, part=part, shared_doc=shared_doc, site=site):
            if not url.startswith(site):
                raise KeyError("member %d does not serve %s" % (k, url))      # another member's site
            return shared_doc if url.split("#")[0].endswith("doc.json") else part
        handlers = {"http": serve}
        props["sd"] = {"$ref": site + "doc.json"}
    if "unserved-by-some" in kinds:
        U_ = "http://unserved.example/lib/doc.json"
        props["un1"] = {"$ref": U_ + "#/definitions/q"}
        if k != 0:
            udoc = {"definitions": {"q": rng.choice(LEAVES)}, "type": "object"}
            handlers = dict(handlers, http=(lambda url, udoc=udoc: udoc))
            props["un2"] = {"$ref": U_}
    if "subclassed-keyword" in kinds:
        props["sk1"] = {"vf-odd-length": True}
        props["sk2"] = {"items": {"vf-odd-length": True, "title": "only the subclass knows this keyword"}}
        if k % 2 == 1:
            def odd_length(validator, value, instance, schema):
                if isinstance(instance, (str, list)) and len(instance) % 2 == 0:
                    yield X.ValidationError("%r has an even length" % (instance,))
            base_ = cls
            cls = type("VfSub%d" % k, (base_,), {"VALIDATORS": dict(base_.VALIDATORS, **{"vf-odd-length": odd_length})})
    late = None
    if "late-registration" in kinds and k == 1:
        late_id = impl.META_ID[d]
        late_leaf = rng.choice(LEAVES)
        late = {"$schema": late_id, idk: late_id, "definitions": {"vfq": late_leaf}, "properties": {"vfp": late_leaf}}
        props["lr1"] = {"$ref": late_id.rstrip("#") + "#/definitions/vfq"}
        props["lr2"] = {"items": {"$ref": late_id.rstrip("#") + "#/properties/vfp"}}
    if "huge-int" in kinds:
        props["big"] = {"type": "string"}
    if "regex" in kinds:
        props["x1"] = {"pattern": "^a"}
        props["x2"] = {"patternProperties": {"^a": rng.choice(LEAVES), "b$": rng.choice(LEAVES)}, "additionalProperties": False}
    if "format" in kinds:
        fc = jsonschema.FormatChecker(formats=())
        accept = rng.choice(["x", "y", "z"])
        fc.checks("shared-format")(lambda inst, accept=accept: inst == accept)
        props["f1"] = {"format": "shared-format"}
        props["f2"] = {"items": {"format": "shared-format"}}
    dollar = None
    if "dollar-schema" in kinds:
        # member 0 is created the way jsonschema.validate() does it: through validator_for, with a $schema URI
        # nobody registered; the other members fetch a document from that very URL through their own handlers
        U_ = R.HANDLER_DIR + "dialect.json"
        if k == 0:
            dollar = U_
        else:
            hdoc2 = {"properties": {"v": rng.choice(LEAVES)}, "minProperties": 5}
            handlers = dict(handlers, vf=(lambda url, hdoc2=hdoc2: hdoc2))
            props["ds1"] = {"$ref": U_}
            props["ds2"] = {"$ref": U_ + "#/properties/v"}
    if "decimal" in kinds:
        # numbers handed over as decimal.Decimal (json.load(parse_float=Decimal)): arithmetic on them reads the
        # thread's decimal context, which is shared by everything running in the thread
        from decimal import Decimal
        mo = "divisibleBy" if d == 3 else "multipleOf"
        props["n1"] = {mo: rng.choice([3, 7, Decimal("0.01"), Decimal("0.3")]), "maximum": rng.choice([5, Decimal("2.5")])}
        props["n2"] = {"items": {mo: rng.choice([2, Decimal("0.25"), Decimal("1e-10")])}, "minimum": Decimal("-1e4")}
    if "verdicts" in kinds:
        # content-equal subschemas in every member, instances that are equal in Python but different JSON values
        props["v1"] = {"type": "boolean"}
        props["v2"] = {"enum": [1, "x"]}
        props["v3"] = {"items": {"type": "integer"}, "uniqueItems": True}
    if "types" in kinds:
        pick = rng.choice([int, str, list])

        def is_thing(checker, instance, pick=pick):
            return isinstance(instance, pick) and not isinstance(instance, bool)
        cls = validators.extend(cls, type_checker=cls.TYPE_CHECKER.redefine("string", is_thing))
        props["t1"] = {"type": "string"}
        props["t2"] = {"items": {"type": "string"}}
    legacy_types = None
    if "types-argument" in kinds:
        # what one member asks for by name says nothing about the names it does not mention, and nothing about the others
        # (no container type is redefined: the keyword functions rely on what an "object" and an "array" can do)
        menu = [{"number": (int, float, str)}, {"string": (str, int)}, {"integer": (int, float, str)},
                {"null": (type(None), str)}, {"boolean": (bool, str)}, {"string": (str, float), "null": (type(None), int)}, {"number": (int, float, type(None))}]
        legacy_types = menu[(rng.randrange(len(menu)) + 3 * k) % len(menu)]
        for j, tn in enumerate(["string", "number", "object", "array", "null", "integer", "boolean"]):
            props["ty%d" % j] = {"type": tn}
        props["ty7"] = {"items": {"type": ["null", "integer"]}, "maxItems": 1}
    names = list(props)
    rng.shuffle(names)
    S = {idk: R.ROOT_URL, "definitions": defs, "properties": {n: props[n] for n in names}, "additionalProperties": False}
    if "custom-scheme-root" in kinds and k == 0:
        S[idk] = "x-vf://svc.example/schemas/root.json"
    if d != 3:
        S["required"] = ["zz"]
    inst = {}
    for n in names:
        v = rng.choice([1, "s", "x", "y", "ab", "ba", [1, "x"], ["y", 2], None, 20, {"x": [1, "q"]}, {"v": 1}, {"ab": 1, "xb": "s"}])
        inst[n] = v
    if "decimal" in kinds:
        from decimal import Decimal
        # (moderate magnitudes: a quotient of more digits than the context's precision raises InvalidOperation on the
        #  unchanged tree as well - Decimal instances are outside the numeric property's stated input space)
        nums = [Decimal("12.5"), Decimal("0.35"), Decimal("7"), Decimal("100.25"), 21, 7, Decimal("-3.3"), 100, Decimal("0.75")]
        inst["n1"] = rng.choice(nums)
        inst["n2"] = [rng.choice(nums) for _ in range(3)]
    if "huge-int" in kinds and k == 0:
        # (on the unchanged tree member 0's own run ends in the recorded C03 finding and the group is skipped; a group
        #  that does run must leave the interpreter's conversion limit alone)
        inst["big"] = 10 ** 5000
    if "shared-handler-document" in kinds:
        inst["sd"] = {"v": rng.choice([1, "s", [], None]), "w": [rng.choice([1, "s", "x", 20]), rng.choice([1, "s", None])]}
    if "verdicts" in kinds:
        inst["v1"] = [True, 1, 1.0, False, 0][k % 5] if rng.random() < 0.8 else rng.choice([True, 1])
        inst["v2"] = [1, True, 1.0, "x"][(k + 1) % 4]
        inst["v3"] = [[1, True], [1, 1.0], [1, 2], [True, False]][k % 4]
    if rng.random() < 0.5:
        inst["extra"] = 0

    if dollar:
        S["$schema"] = dollar

    def build():
        kw = {}
        if dollar:
            import warnings
            with warnings.catch_warnings():
                warnings.simplefilter("ignore")
                validators.validator_for(S)       # what jsonschema.validate(instance, S) does first
        if late is not None:
            C_ = validators.create(meta_schema=late, validators=cls.VALIDATORS, type_checker=cls.TYPE_CHECKER, id_of=cls.ID_OF)
            validators.validates("vf-late-dialect")(C_)
        if fc is not None:
            kw["format_checker"] = fc
        if legacy_types is not None:
            kw["types"] = legacy_types
        if store is not None or handlers:
            kw["resolver"] = RefResolver.from_schema(S, id_of=cls.ID_OF, store=dict(store or {}), handlers=handlers)
        return cls(S, **kw)
    return {"schema": S, "instance": inst, "build": build, "draft": d}


def group_plan(gseed):
    rng = random.Random(gseed)
    kinds = set(rng.sample(["refs", "remote", "regex", "format", "types", "verdicts", "dollar-schema", "decimal", "shared-handler-document", "huge-int"], rng.randrange(1, 4)))
    if "shared-handler-document" in kinds:
        kinds -= {"remote", "dollar-schema"}          # (they install handlers of their own for the same scheme)
    n = rng.choice([2, 2, 3])
    if rng.random() < 0.18:
        # several validators built from the very same schema OBJECT (no resolver passed): each still gets its own resolver
        kinds = {"refs", "same-schema-object"}
    elif rng.random() < 0.1:
        kinds = {"handed-on-store"}
    elif rng.random() < 0.1:
        # member 0's root id uses a scheme urllib has no table entry for (no references in these members)
        kinds = {"custom-scheme-root", "regex", "verdicts"}
    elif rng.random() < 0.15:
        # every member is built with a (deprecated, still public) types= argument of its own
        kinds = {"types-argument", "verdicts"}
    elif rng.random() < 0.12:
        # member 1 first registers a dialect of its own under a metaschema id that is already registered (a patched copy
        # of a bundled draft) and then refers to that URI; the others were built before or after, and refer to nothing of it
        kinds = {"late-registration", "regex"}
    elif rng.random() < 0.12:
        # the odd members' class is a Python subclass of the draft class with a keyword table of its own (one more keyword);
        # the even members use the draft class itself
        kinds = {"subclassed-keyword", "regex"}
    elif rng.random() < 0.15:
        # member 0 cannot retrieve a document (no handler: its iteration ends in RefResolutionError); the others serve the very
        # same URL through handlers of their own
        kinds = {"unserved-by-some", "regex"}
    return kinds, n


def handed_on_member(gseed, d, k, link):
    """Group kind `handed-on-store`: member 0 builds its resolver from a plain dict store; every other member builds its
    own resolver with store=<member 0's resolver>.store - the documents are handed on, the resolvers stay separate
    (own scope stack, own caches, own handlers serving OTHER documents under the same URLs).  No root id: all members
    have the same base URI, and the same reference strings mean different definitions."""
    rng = random.Random(gseed * 131 + k)
    cls = impl.CLS[d]
    t, q = rng.sample(LEAVES, 2)
    hdoc = {"properties": {"v": rng.choice(LEAVES)}, "definitions": {"q": q}}
    S = {"definitions": {"t": t}, "properties": {"r1": {"$ref": "#/definitions/t"}, "r2": {"items": {"$ref": "#/definitions/t"}},
                                                 "m1": {"$ref": R.HANDLER_DIR + "handed.json"},
                                                 "m2": {"$ref": R.HANDLER_DIR + "handed.json#/definitions/q"},
                                                 "s1": {"$ref": R.STORE_DIR + "common.json"}},
         "additionalProperties": False}
    if d != 3:
        S["required"] = ["zz"]
    vals = [1, "s", "x", [1, "x"], None, 20, {"v": 1}, "ab"]
    inst = {"r1": rng.choice(vals), "r2": [rng.choice(vals), rng.choice(vals)], "m1": {"v": rng.choice(vals)}, "m2": rng.choice(vals),
            "s1": rng.choice(vals), "extra": 0}
    handlers = {"vf": (lambda url, hdoc=hdoc: hdoc)}
    common = {R.STORE_DIR + "common.json": {"type": ["integer", "string"]}}

    def build0():
        m0 = handed_on_member(gseed, d, 0, {}) if k != 0 else None
        if k == 0:
            v = cls(S, resolver=RefResolver.from_schema(S, id_of=cls.ID_OF, store=dict(common), handlers=handlers))
        else:
            v = m0["build"]()
        return v

    def build():
        if k == 0:
            v = build0()
            link["v0"] = v
            return v
        if "v0" not in link:
            link["v0"] = build0()          # built, never run (the solo run of member k needs somebody's store to be handed)
        return cls(S, resolver=RefResolver.from_schema(S, id_of=cls.ID_OF, store=link["v0"].resolver.store, handlers=handlers))
    return {"schema": S, "instance": inst, "build": build, "draft": d}


def make_one(gseed, d, k, shared=None, link=None):
    """Member k of group gseed, built WITHOUT building the others (each member has its own seed)."""
    kinds, n = group_plan(gseed)
    if "handed-on-store" in kinds:
        return handed_on_member(gseed, d, k, link if link is not None else {})
    if "same-schema-object" in kinds:
        m0 = make_member(random.Random(gseed * 31), d, 0, {"refs"})
        mk = make_member(random.Random(gseed * 31 + k), d, k, {"refs"})
        S = shared if shared is not None else m0["schema"]
        cls = impl.CLS[d]
        inst = {n_: mk["instance"].get(n_, 1) for n_ in S["properties"]}
        inst["r3"] = {"x": [1, "s", None]}
        return {"schema": S, "instance": inst, "draft": d, "build": (lambda: cls(S))}
    return make_member(random.Random(gseed * 31 + k), d, k, kinds, link=link)


def make_group(gseed, d):
    kinds, n = group_plan(gseed)
    members = []
    shared = None
    link = {}
    for k in range(n):
        m = make_one(gseed, d, k, shared=shared, link=link)
        if "same-schema-object" in kinds:
            shared = m["schema"]
        members.append(m)
    return members, kinds


def fork_run(fn):
    """Run fn() in a forked child and return its (picklable) result.  The
    parent worker never executes any validation itself, so every child starts
    from a pristine copy of the library's module state: a solo run can never
    be influenced by another validator, whatever module- or class-level
    state a change to the library introduces."""
    import os
    import pickle
    import traceback
    r, w = os.pipe()
    pid = os.fork()
    if pid == 0:
        try:
            os.close(r)
            from vf.obs import monitor
            cov = monitor.shared_coverage()
            known = set(cov.hit)
            try:
                val = fn()
                out = pickle.dumps(("ok", val, sorted(cov.hit - known)))
            except BaseException:
                out = pickle.dumps(("err", traceback.format_exc(), []))
            with os.fdopen(w, "wb") as f:
                f.write(out)
        finally:
            os._exit(0)
    os.close(w)
    with os.fdopen(r, "rb") as f:
        data = f.read()
    os.waitpid(pid, 0)
    if not data:
        return ("err", "child died without a result")
    st, val, lines = pickle.loads(data)
    from vf.obs import monitor
    monitor.shared_coverage().hit.update(lines)
    return st, val


ENDED = "iteration ended in RefResolutionError"


def solo(member):
    out = []
    try:
        for e in member["build"]().iter_errors(member["instance"]):
            out.append(fp(e))
    except X.RefResolutionError:
        # a documented way for an iteration to end (a reference this member's resolver cannot retrieve): part of what the
        # member yields, alone and in company alike
        out.append(ENDED)
    except Exception as e:
        return ("exc", type(e).__name__)
    return out


# ----------------------------------------------------------------------- interleavings

def all_schedules(lens, limit):
    """All interleavings of sequences with the given numbers of steps (as tuples of member indices)."""
    total = 1
    n = 0
    from math import comb
    for ln in lens:
        n += ln
        total *= comb(n, ln)
    if total > limit:
        return None
    out = []

    def go(rem, acc):
        if not any(rem):
            out.append(tuple(acc))
            return
        for i, r in enumerate(rem):
            if r:
                rem[i] -= 1
                acc.append(i)
                go(rem, acc)
                acc.pop()
                rem[i] += 1
    go(list(lens), [])
    return out


class AmbientStateChanged(Exception):
    pass


def run_schedule(members, schedule):
    from vf.obs import ambient
    amb0 = ambient.snapshot()
    vs = [m["build"]() for m in members]
    if ambient.snapshot() != amb0:
        raise AmbientStateChanged("by constructing the validators: %r" % ambient.diff(amb0, ambient.snapshot()))
    its = [v.iter_errors(m["instance"]) for v, m in zip(vs, members)]
    got = [[] for _ in members]
    done = [False] * len(members)
    q0 = ambient.quick()
    for i in schedule:
        if done[i]:
            continue
        try:
            e = next(its[i])
            got[i].append(fp(e))
        except StopIteration:
            done[i] = True
        except X.RefResolutionError:
            got[i].append(ENDED)
            done[i] = True
        # a suspended iterator holds no ambient interpreter state (decimal context, recursion limit, ...): whatever
        # runs next in this thread - another validator, the caller - would inherit it
        if ambient.quick() != q0:
            raise AmbientStateChanged("after a next() on member %d: %r" % (i, ambient.diff(amb0, ambient.snapshot())))
    # drain what is left, round robin
    while not all(done):
        for i in range(len(members)):
            if not done[i]:
                try:
                    got[i].append(fp(next(its[i])))
                except StopIteration:
                    done[i] = True
                except X.RefResolutionError:
                    got[i].append(ENDED)
                    done[i] = True
    if ambient.snapshot() != amb0:
        raise AmbientStateChanged("after the schedule: %r" % ambient.diff(amb0, ambient.snapshot()))
    return got


def check_group(ctx, rng, members, kinds, solos, gseed=None, only_schedule=None):
    if any(isinstance(s, tuple) for s in solos):
        ctx.count("skipped_solo_exception")
        for s in solos:
            if isinstance(s, tuple):
                ctx.count("skipped_solo_exception:" + "+".join(sorted(kinds)) + ":" + str(s[1]))
        return
    ctx.count("groups")
    for k in kinds:
        ctx.count("collision:" + k)
    # every iterator needs len+1 next() calls (the last one ends it)
    lens = [len(s) + 1 for s in solos]
    scheds = all_schedules(lens, 924)
    if scheds is None:
        base = []
        for i, ln in enumerate(lens):
            base += [i] * ln
        scheds = []
        for _ in range(200):
            s = list(base)
            rng.shuffle(s)
            scheds.append(tuple(s))
    else:
        ctx.count("schedules_exhaustive_groups")
    desc = [{"draft": m["draft"], "schema": m["schema"], "instance": m["instance"], "group_seed": gseed} for m in members]
    nontrivial = sum(1 for s in solos if s) >= 2
    if only_schedule is not None:
        scheds = [tuple(only_schedule)]
    for sched in scheds:
        ctx.count("schedules")
        ctx.case([desc, list(sched)], nontrivial=nontrivial)
        try:
            got = run_schedule(members, sched)
        except Exception as e:
            ctx.violation("interleaving-raised", {"group": desc, "group_seed": gseed, "draft": members[0]["draft"], "kinds": sorted(kinds), "schedule": list(sched)},
                          "%s: %s" % (type(e).__name__, str(e)[:150]))
            return
        for i, (g, s) in enumerate(zip(got, solos)):
            if g != s:
                ctx.violation("interleaving-changed-errors", {"group": desc, "group_seed": gseed, "draft": members[0]["draft"], "kinds": sorted(kinds), "schedule": list(sched), "member": i},
                              "member %d yields %r interleaved, %r alone" % (i, g[:2], s[:2]))
                return


# ----------------------------------------------------------------------- threads

class YieldInjector:
    """sleep(0) with probability p at the entry of repo functions; records which thread ran."""
    TOOL = 5

    def __init__(self, p, seed):
        self.p = p
        self.rng = random.Random(seed)
        self.trace = []
        self.prefix = monitor._repo_prefix()
        self._own = {}

    def _cb(self, code, offset):
        own = self._own.get(code)
        if own is None:
            import os
            fn = code.co_filename
            own = os.path.realpath(fn).startswith(self.prefix) if fn and fn[0] != "<" else False
            self._own[code] = own
        if not own:
            return sys.monitoring.DISABLE
        self.trace.append(threading.get_ident())
        if self.rng.random() < self.p:
            time.sleep(0)

    def start(self):
        m = sys.monitoring
        m.use_tool_id(self.TOOL, "vf-yield")
        m.register_callback(self.TOOL, m.events.PY_START, self._cb)
        m.set_events(self.TOOL, m.events.PY_START)

    def stop(self):
        m = sys.monitoring
        m.set_events(self.TOOL, 0)
        m.register_callback(self.TOOL, m.events.PY_START, None)
        m.free_tool_id(self.TOOL)

    def switches(self):
        t = self.trace
        return sum(1 for a, b in zip(t, t[1:]) if a != b)


def thread_run(ctx, rng, members, kinds, rounds, solos, gseed=None):
    if any(isinstance(s, tuple) for s in solos):
        return
    nthreads = rng.randrange(2, 9)
    assign = [members[i % len(members)] for i in range(nthreads)]
    expect = [sorted(map(repr, solos[i % len(members)])) for i in range(nthreads)]
    results = [[] for _ in range(nthreads)]
    errors = []
    barrier = threading.Barrier(nthreads)

    # (groups whose members hand a store on are built up front, in member order: what is handed on is the store as
    #  it is at that moment, and it must be the not-yet-used one the solo runs saw)
    prebuilt = [m["build"]() for m in assign] if "handed-on-store" in kinds else None

    def work(t):
        try:
            v = prebuilt[t] if prebuilt is not None else assign[t]["build"]()
            barrier.wait()
            for _ in range(rounds):
                one = []
                try:
                    for e in v.iter_errors(assign[t]["instance"]):
                        one.append(repr(fp(e)))
                except X.RefResolutionError:
                    one.append(repr(ENDED))
                results[t].append(sorted(one))
        except Exception as e:
            errors.append((t, type(e).__name__, str(e)[:120]))
    inj = YieldInjector(0.05, rng.randrange(10 ** 9))
    old = sys.getswitchinterval()
    sys.setswitchinterval(1e-6)
    inj.start()
    try:
        ths = [threading.Thread(target=work, args=(t,)) for t in range(nthreads)]
        for th in ths:
            th.start()
        for th in ths:
            th.join(120)
    finally:
        inj.stop()
        sys.setswitchinterval(old)
    sw = inj.switches()
    ctx.count("thread_runs")
    ctx.count("observed_switches", sw)
    if sw >= 20:
        ctx.count("thread_runs_20plus_switches")
    sig = hash(tuple(inj.trace[:400]))
    ctx.notes.setdefault("_sigs", set()).add(sig)
    desc = [{"draft": m["draft"], "schema": m["schema"], "instance": m["instance"]} for m in members]
    case = {"group": desc, "group_seed": gseed, "draft": members[0]["draft"], "kinds": sorted(kinds), "threads": nthreads, "rounds": rounds}
    ctx.case([desc, "threads", nthreads, sig])
    if any(th.is_alive() for th in ths):
        ctx.count("thread_join_timeout_inconclusive")
        return
    if errors:
        ctx.violation("thread-raised", case, "%r" % errors[:3])
        return
    for t in range(nthreads):
        for r in results[t]:
            ctx.count("thread_validations")
            if r != expect[t]:
                ctx.violation("thread-changed-errors", dict(case, thread=t), "thread %d got %r, alone %r" % (t, r[:2], expect[t][:2]))
                return


def group_child(tier, seed, shard, nshards, gseed, d, solos, do_threads, rounds, only_schedule=None):
    """Runs in a forked child: build the whole group, run the schedules (and threads), return the recorder."""
    from vf.ctx import Ctx
    c = Ctx("C18", tier, seed, shard, nshards)
    c.rng = random.Random(gseed ^ 0x5bd1e995)
    members, kinds = make_group(gseed, d)
    check_group(c, c.rng, members, kinds, solos, gseed=gseed, only_schedule=only_schedule)
    if do_threads:
        thread_run(c, c.rng, members, kinds, rounds, solos, gseed=gseed)
    sigs = c.notes.pop("_sigs", set())
    res = c.result()
    res["sigs"] = sorted(sigs)
    return res


def merge_child(ctx, res, sigs):
    ctx.evaluations += res["evaluations"]
    ctx.counters.update(res["counters"])
    ctx.hashes.update(res["hashes"])
    for v in res["violations"]:
        ctx.violation(v["kind"], v["case"], v["detail"], mech=v["mech"])
    sigs.update(res.get("sigs", []))


def one_group(ctx, gseed, d, do_threads, rounds, sigs, only_schedule=None):
    kinds, n = group_plan(gseed)
    solos = []
    for k in range(n):
        st, val = fork_run(lambda k=k: solo(make_one(gseed, d, k)))
        if st != "ok":
            ctx.count("solo_child_failed")
            return
        solos.append(val)
    st, res = fork_run(lambda: group_child(ctx.tier, ctx.seed, ctx.shard, ctx.nshards, gseed, d, solos, do_threads, rounds,
                                           only_schedule))
    if st != "ok":
        ctx.count("group_child_failed")
        ctx.notes.setdefault("child_errors", []).append(str(res)[-400:])
        return
    merge_child(ctx, res, sigs)


def run(ctx):
    impl.quiet()
    rng = ctx.rng
    sigs = set()
    for i in range(ctx.scale(100, 900)):
        d = impl.DRAFTS[i % 4]
        gseed = rng.randrange(2 ** 32)
        one_group(ctx, gseed, d, do_threads=(i % 4 == 0), rounds=ctx.scale(15, 40), sigs=sigs)
        if i % 29 == 0:
            kinds, n = group_plan(gseed)
            ctx.sample({"kinds": sorted(kinds), "members": n, "group_seed": gseed, "draft": d})
    ctx.count("distinct_interleaving_signatures", len(sigs))
    # the controller itself must never have run a validation (pristine module state for every child)
    ctx.notes["controller_ran_no_validation"] = True


def replay(ctx, rec):
    impl.quiet()
    c = rec["case"]
    sigs = set()
    one_group(ctx, c["group_seed"], c["draft"], do_threads=("schedule" not in c), rounds=c.get("rounds", 20), sigs=sigs,
              only_schedule=c.get("schedule"))
