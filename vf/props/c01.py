"""C01 - validity verdicts agree with the specification (drafts 3/4/6/7).

Monitor: reference-model comparator.  Every (draft, ref-free schema accepted
by check_schema, instance) produced by the workload is evaluated by the
implementation and by the independent model M; a disagreement inside the
model's exact domain is a violation.
"""
import random

from vf import impl
from vf.gen import values as V
from vf.gen.instance import InstGen
from vf.gen.schema import VOCAB, SchemaGen
from vf.model import eval as M
from vf.model.equal import jeq, loose
from vf.obs.wrap import KeywordLog

ID = "C01"
LEVEL = "exploration"
RULE = ("deterministic core: every keyword of every draft x 12 generated single-keyword schemas x 30 "
        "type-representative instances (type-gating matrix), thorough adds every unordered keyword pair; "
        "seeded part: grammar-generated ref-free schemas (1-5 keywords per object, depth<=3) gated by "
        "check_schema, each with schema-directed instances.  A case is (draft, schema, instance); it is "
        "non-trivial when the schema has at least one keyword of the draft's vocabulary and the case lies in "
        "the model's exact domain; distinct by canonical JSON of the triple.")
ASSUMPTIONS = [
    "oracle: /verif/vf/model/eval.py, calibrated at run time on the official suite bundled in the repo "
    "(incl. the bug-686 cases the repo skips)",
    "regexes restricted to the ECMA/Python common subset, subjects without line terminators",
    "float multipleOf judged only on the exact sub-domain of C09; equality-sensitive cases delegated to C08",
    "Draft 3 type names restricted to the eight defined ones; format/content* not evaluated (C12/C13)",
]
REPORT_COUNTERS = ["compared", "valid", "invalid", "delegated_to_C08", "out_of_domain", "schema_rejected",
                   "impl_exception_delegated_to_C03", "keyword_cells_both_outcomes"]
EXHAUSTIVE_NOTE = "keyword x JSON-type matrix is enumerated completely on both tiers; keyword pairs on thorough"


def shards(tier):
    return 8 if tier == "quick" else 16


def floors(tier):
    return {"compared": 20000 if tier == "quick" else 200000,
            "valid": 3000, "invalid": 3000,
            "keyword_cells_both_outcomes": 80,   # of 107 (draft, keyword) cells
            "distinct_nontrivial": 10000,
            "calibration_cases": 2000, "consulting_pairs_enumerated": 500, "shape_pairs_enumerated": 2000,
            "pattern_tables_enumerated": 3000, "compared_neutral_configurations": 50000, "compared_with_assorted_ids": 20000, "large_instances_compared": 3000}


def classify(case, detail):
    return None


def compare(ctx, draft, schema, inst, gate=True, tag="rand"):
    cls = impl.CLS[draft]
    if gate:
        try:
            ok = impl.accepts(draft, schema)
        except Exception:
            ctx.count("check_schema_exception_delegated_to_C11")
            return
        if not ok:
            ctx.count("schema_rejected")
            return
    try:
        strict = M.Model(draft, schema, eq=jeq).valid(inst)
        lo = M.Model(draft, schema, eq=loose).valid(inst)
    except M.OutOfDomain:
        ctx.count("out_of_domain")
        ctx.case([draft, schema, inst], nontrivial=False)
        return
    except RecursionError:
        ctx.count("out_of_domain")
        return
    if strict != lo:
        ctx.count("delegated_to_C08")
        ctx.case([draft, schema, inst], nontrivial=False)
        return
    try:
        errs = list(cls(schema).iter_errors(inst))
        got = not errs
    except Exception as e:
        ctx.count("impl_exception_delegated_to_C03")
        ctx.count("impl_exception:" + type(e).__name__)
        from vf.props.c05 import _mentions, _plain_json, _is_valid_schema
        from jsonschema import exceptions as _X
        if not isinstance(e, (RecursionError, MemoryError, _X.UnknownType, _X.RefResolutionError)) and not _mentions(schema, ("$ref", "id", "$id")) and _plain_json(schema) and _plain_json(inst) \
                and _is_valid_schema(draft, schema):
            # the model has a verdict for this reference-free schema (accepted by the metaschema) over plain JSON; the
            # implementation has none
            ctx.violation("no-verdict", {"draft": draft, "schema": schema, "instance": inst},
                          "%s: %s - the model says %s" % (type(e).__name__, str(e)[:120], "valid" if strict else "invalid"))
        return
    ctx.count("compared")
    ctx.count("compared:d%d" % draft)
    ctx.count("valid" if strict else "invalid")
    nontrivial = isinstance(schema, dict) and any(k in VOCAB[draft] for k in schema)
    ctx.case([draft, schema, inst], nontrivial=nontrivial)
    if got != strict:
        ctx.violation("verdict", {"draft": draft, "schema": schema, "instance": inst},
                      "implementation says %s, model says %s (%s)" % (
                          "valid" if got else "invalid", "valid" if strict else "invalid", tag))
        return
    # the same verdict from a validator configured in the ways that do not change the meaning of the schema: the
    # deprecated `types=` argument overriding a type with what it already is, an explicitly passed default resolver
    n = ctx.counters.get("compared", 0)
    if (n % 7 == 3 or tag == "replay") and isinstance(schema, dict) and not _has_ref(schema):
        S_id = with_ids(random.Random(n), draft, schema)
        try:
            v = cls(S_id)
            seen = [v.is_valid(inst), v.is_valid(inst), not list(v.iter_errors(inst))]
        except Exception as e:
            ctx.violation("verdict-with-ids", {"draft": draft, "schema": S_id, "instance": inst}, "%s: %s" % (type(e).__name__, str(e)[:100]))
            return
        ctx.count("compared_with_assorted_ids")
        if any(x != strict for x in seen):
            ctx.violation("verdict-with-ids", {"draft": draft, "schema": S_id, "instance": inst},
                          "one validator asked three times says %r, model says %s (ids of assorted spellings in a reference-free schema)" % (seen, strict))
            return
    if n % 5 == 0 or tag == "replay":
        for how, mk in CONFIGS:
            try:
                got2 = mk(cls, schema).is_valid(inst)
            except Exception as e:
                ctx.violation("verdict-under-neutral-configuration", {"draft": draft, "schema": schema, "instance": inst, "configuration": how},
                              "%s: %s" % (type(e).__name__, str(e)[:100]))
                return
            ctx.count("compared_neutral_configurations")
            if got2 != strict:
                ctx.violation("verdict-under-neutral-configuration", {"draft": draft, "schema": schema, "instance": inst, "configuration": how},
                              "with %s the implementation says %s, model says %s" % (how, "valid" if got2 else "invalid", "valid" if strict else "invalid"))
                return


ID_SPELLINGS = ["#item", "#", "#/definitions/x", "item.json", "sub/", "../up.json", "http://vf.example/a/b.json", "urn:vf:thing", "?q=1",
                "//host/p", "", "a b", "%41", "#a#b"]


def with_ids(rng, draft, schema, depth=0):
    """A copy of a reference-free schema whose subschema objects declare ids of assorted spellings (fragment-only, empty,
    relative, absolute, non-hierarchical): without references an id changes no verdict."""
    from vf.gen.schema import walk_subschemas
    from vf.gen.mutate import get_at, set_at
    idk = impl.IDKW[draft]
    out = schema
    subs = [p for p, s_ in walk_subschemas(draft, schema) if isinstance(s_, dict) and idk not in s_]
    for p in rng.sample(subs, min(len(subs), 3)):
        node = get_at(out, list(p))
        if isinstance(node, dict):
            out = set_at(out, list(p), dict(node, **{idk: rng.choice(ID_SPELLINGS)}))
    return out


def _has_ref(x):
    if isinstance(x, dict):
        return "$ref" in x or any(_has_ref(v) for v in x.values())
    if isinstance(x, list):
        return any(_has_ref(v) for v in x)
    return False


def _with_types(cls, schema):
    return cls(schema, types={"array": list, "object": dict})


def _with_resolver(cls, schema):
    from jsonschema import RefResolver
    return cls(schema, resolver=RefResolver.from_schema(schema, id_of=cls.ID_OF))


def _with_format_checker_unused(cls, schema):
    import jsonschema
    return cls(schema, format_checker=jsonschema.FormatChecker(formats=()))


CONFIGS = [("types={'array': list, 'object': dict} (what they already are)", _with_types),
           ("an explicitly passed RefResolver.from_schema(schema)", _with_resolver),
           ("a format checker that knows no format", _with_format_checker_unused)]


def _large(ctx):
    """Large instances (a hundred to a few thousand elements or members) that fail or pass in bulk: the verdict does not
    depend on how many elements there are, how many of them fail, or how many errors a failing branch piles up."""
    n = 0
    sizes = [30, 99, 100, 101, 150, 257, 700]
    for d in impl.DRAFTS:
        alt = (lambda subs: {"type": subs}) if d == 3 else (lambda subs: {"anyOf": subs})
        strs = {"items": {"type": "string"}}
        templates = [alt([strs, {"type": "object"}]), alt([strs, {"items": {"type": "null"}}, {"maxItems": 2}]),
                     {"items": alt([{"type": "string"}, {"type": "null"}])}, {"items": {"type": "integer"}, "uniqueItems": True},
                     {"additionalProperties": {"type": "integer"}}, {"patternProperties": {"^k": {"type": "string"}}, "additionalProperties": False},
                     {"properties": {"k1": {"type": "string"}}, "additionalProperties": alt([{"type": "string"}, {"type": "boolean"}])},
                     {"maxItems": 100}, {"minItems": 100}, {"maxProperties": 100} if d != 3 else {"maxItems": 99}, {"items": [{"type": "integer"}] * 3, "additionalItems": {"type": "integer"}}]
        if d != 3:
            templates += [{"oneOf": [strs, {"type": "object"}]}, {"oneOf": [strs, {"items": {"type": "integer"}}, {"type": "array"}]}, {"not": strs}, {"allOf": [strs, {"minItems": 1}]},
                          {"not": {"anyOf": [strs, {"type": "object"}]}}, {"anyOf": [{"allOf": [strs, strs]}, {"oneOf": [strs, strs]}]}]
        else:
            templates += [{"disallow": [strs]}, {"extends": [strs, {"minItems": 1}]}, {"type": [{"extends": [strs]}, "object"]}]
        if d >= 6:
            templates += [{"contains": {"type": "string"}}, {"propertyNames": {"maxLength": 3}}, {"items": {"const": 1}}]
        if d >= 7:
            templates += [{"if": strs, "then": {"maxItems": 0}, "else": {"minItems": 1}}, {"if": {"anyOf": [strs, {"type": "object"}]}, "then": False}]
        for S in templates:
            for size in sizes:
                n += 1
                if not ctx.mine(n):
                    continue
                insts = [list(range(size)), ["s"] * size, ["s"] * (size - 1) + [1], [1] + ["s"] * (size - 1), [None] * size,
                         {"k%d" % i: i for i in range(size)}, {"k%d" % i: "s" for i in range(size)}, {"k%d" % i: (i % 2 == 0) for i in range(size)}]
                for inst in insts:
                    ctx.count("large_instances_compared")
                    compare(ctx, d, S, inst, tag="large")


def run(ctx):
    impl.quiet()
    if ctx.shard == 0:
        from vf import selftest
        n, bad, skipped = selftest.calibrate_model()
        ctx.count("calibration_cases", n - len(bad))
        ctx.notes["calibration"] = {"suite_cases_reproduced": n - len(bad), "out_of_domain": skipped,
                                    "mismatches": [list(map(str, b)) for b in bad[:5]]}
        if bad:
            raise RuntimeError("model calibration failed: %r" % (bad[:3],))
        n2, bad2 = selftest.calibrate_regex()
        if bad2:
            raise RuntimeError("regex calibration failed: %r" % (bad2[:3],))
    klog = KeywordLog()
    for d in impl.DRAFTS:
        klog.install(impl.CLS[d], "d%d" % d)
    try:
        _core(ctx)
        _large(ctx)
        _random(ctx)
    finally:
        klog.uninstall()
    # keyword-function call log -> which (draft, keyword) cells produced both outcomes
    seen = {}
    for (tag, kw, jt, outcome), n in klog.cells.items():
        seen.setdefault((tag, kw), set()).add(outcome)
        ctx.count("kwcall:%s:%s:%s" % (tag, kw, outcome), n)
    both = sum(1 for k, v in seen.items() if {"ok", "err"} <= v)
    # per-shard maximum is what counts; summed over shards by the parent, so divide later
    ctx.notes["keyword_cells_both_outcomes_shard%d" % ctx.shard] = both
    if ctx.shard == 0:
        ctx.count("keyword_cells_both_outcomes", both)


def _core(ctx):
    idx = 0
    for d in impl.DRAFTS:
        g = SchemaGen(random.Random(4242 + d), d, maxdepth=2)
        for kw in VOCAB[d]:
            for variant in range(12):
                schema = g.keyword_schema(kw)
                idx += 1
                if not ctx.mine(idx):
                    continue
                if not _gate(ctx, d, schema):
                    continue
                for inst in V.ALL_REPS:
                    compare(ctx, d, schema, inst, gate=False, tag="matrix")
                ig = InstGen(random.Random(idx), schema)
                for inst in ig.batch(6):
                    compare(ctx, d, schema, inst, gate=False, tag="matrix-directed")
    # keywords that consult (or, in another draft, used to consult) each other: always together, both tiers
    CONSULT = [("minimum", "exclusiveMinimum"), ("maximum", "exclusiveMaximum"), ("items", "additionalItems"),
               ("properties", "additionalProperties"), ("patternProperties", "additionalProperties"),
               ("properties", "patternProperties"), ("if", "then"), ("if", "else"), ("properties", "required"),
               ("properties", "dependencies"), ("items", "contains"), ("items", "uniqueItems"), ("enum", "const"),
               ("type", "disallow"), ("type", "enum"), ("minItems", "items"), ("required", "dependencies"),
               ("minLength", "pattern"), ("multipleOf", "minimum"), ("divisibleBy", "minimum"), ("propertyNames", "properties"),
               ("propertyNames", "additionalProperties"), ("extends", "properties"), ("allOf", "properties"), ("not", "type")]
    for d in impl.DRAFTS:
        g = SchemaGen(random.Random(999 + d), d, maxdepth=2)
        for a, b in CONSULT:
            if a not in VOCAB[d] or b not in VOCAB[d]:
                continue
            for variant in range(10):
                sa = g.keyword_schema(a)
                sb = g.keyword_schema(b)
                idx += 1
                if not ctx.mine(idx):
                    continue
                s = dict(sa)
                for k, v in sb.items():
                    s.setdefault(k, v)
                if variant % 2:
                    s = dict(reversed(list(s.items())))
                if not _gate(ctx, d, s):
                    continue
                ctx.count("consulting_pairs_enumerated")
                ig = InstGen(random.Random(idx), s)
                for inst in V.ALL_REPS[::3] + ig.batch(10):
                    compare(ctx, d, s, inst, gate=False, tag="consulting-pair")
    # ... and with every value SHAPE the metaschema admits for them (boolean items next to additionalItems, empty
    # arrays and objects, ...): what check_schema lets through also has a specified meaning
    from vf.props.c03 import CONSULT as CONSULT3, SHAPES
    for d in impl.DRAFTS:
        ok = {}
        for a, b in CONSULT3:
            for kw in (a, b):
                if kw not in ok and kw in VOCAB[d]:
                    ok[kw] = [sh for sh in SHAPES if _gate_quiet(d, {kw: sh})]
        for a, b in CONSULT3:
            if a not in ok or b not in ok:
                continue
            for sa in ok[a]:
                for sb in ok[b]:
                    idx += 1
                    if not ctx.mine(idx):
                        continue
                    s = {a: sa, b: sb}
                    if not _gate_quiet(d, s):
                        continue
                    ctx.count("shape_pairs_enumerated")
                    for inst in SHAPE_INSTANCES:
                        compare(ctx, d, s, inst, gate=False, tag="shape-pair")
    # every ordered pair of the pattern pool as ONE patternProperties table (groups, alternations and back-references
    # side by side: each pattern is searched on its own), with and without additionalProperties
    from vf.gen.pools import PATTERNS, STRINGS
    prng = random.Random(31337)
    keysets = [prng.sample(STRINGS, 4) for _ in range(5)] + [["abab", "aa", "aba", "b1"], ["ab", "bbb", "b1b1", ""]]
    for d in impl.DRAFTS:
        for pa in PATTERNS:
            for pb in PATTERNS:
                if pa == pb:
                    continue
                idx += 1
                if not ctx.mine(idx):
                    continue
                for ap in (False, {"type": "null"}, None):
                    s = {"patternProperties": {pa: {"type": "integer"}, pb: {"type": ["integer", "null"]}}}
                    if ap is not None:
                        s["additionalProperties"] = ap
                    ctx.count("pattern_tables_enumerated")
                    for ks in keysets:
                        compare(ctx, d, s, {k: (1 if i % 2 else None) for i, k in enumerate(ks)}, gate=False, tag="pattern-table")
    if ctx.tier == "thorough":
        for d in impl.DRAFTS:
            g = SchemaGen(random.Random(777 + d), d, maxdepth=2)
            kws = VOCAB[d]
            for i in range(len(kws)):
                for j in range(i + 1, len(kws)):
                    for variant in range(3):
                        idx += 1
                        if not ctx.mine(idx):
                            g.keyword_schema(kws[i]); g.keyword_schema(kws[j])
                            continue
                        s = g.keyword_schema(kws[i])
                        s2 = g.keyword_schema(kws[j])
                        for k, v in s2.items():
                            s.setdefault(k, v)
                        if not _gate(ctx, d, s):
                            continue
                        ctx.count("pairs_enumerated")
                        ig = InstGen(random.Random(idx), s)
                        for inst in V.ALL_REPS[::2] + ig.batch(8):
                            compare(ctx, d, s, inst, gate=False, tag="pair")


SHAPE_INSTANCES = [None, True, 0, 1, 1.0, 1.5, "", "a", "ab", [], [1], [1, "a"], [1, 1], [[], {}], {}, {"a": 1}, {"a": 1, "b": "x"},
                   {"ab": None}, 2, -1, 10 ** 20, [True, 1], {"a": {"a": 1}}, [{"a": 1}, 2, None]]


def _gate_quiet(d, schema):
    try:
        return impl.accepts(d, schema)
    except Exception:
        return False


def _gate(ctx, d, schema):
    try:
        ok = impl.accepts(d, schema)
    except Exception:
        ctx.count("check_schema_exception_delegated_to_C11")
        return False
    if not ok:
        ctx.count("schema_rejected")
    return ok


def _random(ctx):
    n = ctx.scale(5000, 40000)
    rng = ctx.rng
    for i in range(n):
        d = impl.DRAFTS[i % 4]
        g = SchemaGen(rng, d, maxdepth=rng.choice([1, 2, 2, 3]))
        schema = g.schema()
        if not _gate(ctx, d, schema):
            continue
        ig = InstGen(rng, schema)
        for inst in ig.batch(8):
            compare(ctx, d, schema, inst, gate=False)
        if i % 97 == 0:
            ctx.sample({"draft": d, "schema": schema, "instance": ig.directed()})


def replay(ctx, rec):
    c = rec["case"]
    compare(ctx, c["draft"], c["schema"], c["instance"], gate=True, tag="replay")
