"""C14 - JSON-Pointer fragments resolve to exactly the addressed value, or fail cleanly.

Monitor: constructive oracle.  Positive half: walk the document, encode the
path with our own RFC 6901 + RFC 3986 encoder, expect the *identical* object
back.  Negative half: build the first unresolvable token by class, expect
RefResolutionError and nothing else.
"""
import random

from jsonschema import RefResolver
from jsonschema.exceptions import RefResolutionError

from vf import impl
from vf.gen import values as V
from vf.model import uri as U

ID = "C14"
LEVEL = "exploration"
RULE = ("documents built from G-json with keys from a hostile pool (empty, '/', '~', '~0', '~1', '~01', '%', '%25', "
        "'%41', '#', '?', space, quotes, backslash, non-ASCII, digit strings) at every depth; EVERY reachable "
        "location of every document is encoded (3 percent-encoding styles) and resolved through "
        "RefResolver.resolve_fragment, a sample also through Validator({'$ref': '#'+fragment}); negative pointers "
        "are constructed per class (missing key, index == len, index > len, non-index tokens on arrays, any token on "
        "scalars/strings/null).  A case is (document, fragment); non-trivial when the pointer has >=1 token; distinct "
        "by canonical JSON.")
ASSUMPTIONS = ["oracle: own RFC 6901 escape + RFC 3986 percent-encoding (calibrated on the RFC examples)",
               "pointers are syntactically valid (start with '/' or are empty), as the property's quantifier says"]
REPORT_COUNTERS = ["positive", "negative", "through_validator", "hostile_first", "hostile_middle", "hostile_last",
                   "neg:missing_key", "neg:index_eq_len", "neg:index_gt_len", "neg:non_index_token",
                   "neg:token_on_scalar", "neg:token_on_string"]

HOSTILE_KEYS = ["", "/", "~", "~0", "~1", "~01", "~10", "~~", "%", "%25", "%41", "%zz", "%%", "#", "?", " ", "\"", "\\",
                "'", "é", "é", "\U0001d11e", "0", "1", "01", "-1", "-", "+1", "a/b", "a~b", "a%2Fb", "m~n", "//",
                "a b", "\t", "$ref", "definitions", "+", "&=", "::", "@", "^", "{}", "[0]", "|", "<>", "`"]
NON_INDEX = ["-", "-1", "01", "+1", " 1", "1 ", "1_0", "1.0", "١", "１", "0x1", "1e0", "", "a", "00", "-0", "~0", "true",
             "1٠", "1１", "١0", "1٠٠", "2٣", "1۰", "1０", "１０", "1²", "1½", "10\u0660", "१", "1१"]
NON_ASCII_DIGITS = {"0": "٠۰０०", "1": "١۱１१", "2": "٢۲２२", "3": "٣۳３३", "4": "٤۴４४", "5": "٥۵５५", "6": "٦۶６६",
                    "7": "٧۷７७", "8": "٨۸８८", "9": "٩۹９९"}


def disguise(rng, index):
    """A token that int() would read as `index` but that is not an RFC 6901 array index:
    at least one digit replaced by a non-ASCII decimal digit of the same value."""
    t = list(str(index))
    k = rng.randrange(len(t))
    for i in range(len(t)):
        if i == k or rng.random() < 0.3:
            t[i] = rng.choice(NON_ASCII_DIGITS[t[i]])
    return "".join(t)


def shards(tier):
    return 4 if tier == "quick" else 16


def floors(tier):
    f = {"positive": 20000, "negative": 10000, "through_validator": 1000, "hostile_first": 300,
         "hostile_middle": 300, "hostile_last": 300, "distinct_nontrivial": 10000, "short_lived_resolutions": 5000, "whole_documents_through_resolver": 100, "document_named_like_a_metaschema": 150, "document_named_like_a_store_entry": 80,
         "reused_validator_pointer_sequences": 500, "member_as_referrer_lookups": 10000, "pointers_after_validate_raised_and_exception_kept": 1500, "pointers_under_other_conversion_limits": 1000}
    f["neg:index_beyond_int_conversion_limit"] = 40
    for k in ("missing_key", "index_eq_len", "index_gt_len", "non_index_token", "token_on_scalar", "token_on_string",
              "disguised_in_range_index"):
        f["neg:" + k] = 500
    return f


def gen_doc(rng, depth):
    r = rng.random()
    if depth <= 0 or r < 0.25:
        return V.scalar(rng, hostile=0.05)
    if r < 0.31:
        # long arrays: multi-digit indices
        return [rng.choice(["e%d" % i, i, [i], {"i": i}]) for i in range(rng.choice([11, 12, 25, 101]))]
    if r < 0.55:
        return [gen_doc(rng, depth - 1) for _ in range(rng.randrange(0, 4))]
    out = {}
    for _ in range(rng.randrange(1, 5)):
        k = rng.choice(HOSTILE_KEYS) if rng.random() < 0.8 else rng.choice(["a", "b", "foo"])
        out[k] = gen_doc(rng, depth - 1)
    return out


def locations(doc, path=()):
    yield path, doc
    if isinstance(doc, dict):
        for k, v in doc.items():
            yield from locations(v, path + (k,))
    elif isinstance(doc, list):
        for i, v in enumerate(doc):
            yield from locations(v, path + (i,))


def tokens(path):
    return [str(p) if isinstance(p, int) else p for p in path]


def encodings(rng, toks):
    yield U.fragment_for(toks)
    yield U.fragment_for(toks, non_ascii_raw=True)
    extra = set(rng.sample("abf01-._~!$&'()*+,;=:@?", 4))
    yield U.fragment_for(toks, extra=extra)
    # the fragment is percent-decoded as a whole before it is read as a pointer: an escaped separator ('%2F') or tilde
    # ('%7E') is a separator or tilde like any other
    plain = U.fragment_for(toks)
    if "/" in plain or "~" in plain:
        out = []
        for ch in plain:
            if ch == "/" and rng.random() < 0.6:
                out.append(rng.choice(["%2F", "%2f"]))
            elif ch == "~" and rng.random() < 0.6:
                out.append(rng.choice(["%7E", "%7e"]))
            else:
                out.append(ch)
        yield "".join(out)


_SHARED = []


def resolver():
    """ONE resolver object for all documents of this worker (documents come and go, the resolver stays)."""
    if not _SHARED:
        _SHARED.append(RefResolver("", {}))
    return _SHARED[0]


def short_lived_documents(ctx, n):
    """Same fragments, same shapes, different documents in quick succession on one resolver: each answer must come
    from the document handed in (a dropped document's storage is typically reused by the next one)."""
    R = resolver()
    for k in range(n):
        doc = {"a": {"v": "value-%d" % k, "": [k, {"k": k}]}, "b": ["b-%d" % k]}
        # (even series: pointers to scalars only - nothing a cache could hold keeps the document itself alive, so its
        #  storage really is reused; odd series: the whole document and a container)
        want = [("/a/v", doc["a"]["v"]), ("/a//1/k", k), ("/b/0", doc["b"][0])]
        if k % 10 == 9:
            want += [("", doc), ("/a", doc["a"])]
        for frag, target in want:
            ctx.count("positive")
            ctx.count("short_lived_resolutions")
            ctx.case(["short-lived", k, frag])
            try:
                got = R.resolve_fragment(doc, frag)
            except Exception as e:
                ctx.violation("positive-raised", {"document": doc, "fragment": frag}, "%s" % type(e).__name__)
                continue
            if got is not target:
                ctx.violation("positive-wrong-value", {"document": doc, "fragment": frag},
                              "returned %r instead of the addressed %r (document %d of a series on one resolver)" % (got, target, k))
        if k % 2:
            # the key disappears in every other document: must fail cleanly there
            doc2 = {"b": ["only-b-%d" % k]}
            ctx.count("negative")
            ctx.count("short_lived_resolutions")
            try:
                got = R.resolve_fragment(doc2, "/a/v")
                ctx.violation("negative-returned-value", {"document": doc2, "fragment": "/a/v"}, "returned %r for a pointer that addresses nothing" % (got,))
            except RefResolutionError:
                pass
            except Exception as e:
                ctx.violation("negative-other-exception", {"document": doc2, "fragment": "/a/v"}, type(e).__name__)
            del doc2
        del doc, want


def positive(ctx, rng, doc):
    R = resolver()
    for path, target in locations(doc):
        toks = tokens(path)
        str_path = [p for p in path if isinstance(p, str)]
        if str_path:
            if path and isinstance(path[0], str) and path[0] in HOSTILE_KEYS:
                ctx.count("hostile_first")
            if isinstance(path[-1], str) and path[-1] in HOSTILE_KEYS:
                ctx.count("hostile_last")
            if any(isinstance(p, str) and p in HOSTILE_KEYS for p in path[1:-1]):
                ctx.count("hostile_middle")
        for frag in encodings(rng, toks):
            case = {"document": doc, "fragment": frag, "path": list(path)}
            ctx.case([doc, frag], nontrivial=bool(path))
            ctx.count("positive")
            try:
                got = R.resolve_fragment(doc, frag)
            except Exception as e:
                ctx.violation("positive-raised", case, "%s: %s" % (type(e).__name__, str(e)[:150]))
                continue
            if got is not target:
                ctx.violation("positive-wrong-value", case, "returned %r instead of the addressed %r" % (got, target))


def through_validator(ctx, rng, doc):
    """Replace one location by a marker schema and reach it with $ref."""
    locs = [(p, t) for p, t in locations(doc) if p]
    if not locs or not isinstance(doc, (dict, list)):
        return
    path, _ = rng.choice(locs)
    marker = "marker-%d" % rng.randrange(10 ** 6)
    import copy
    d2 = copy.deepcopy(doc)
    cur = d2
    for p in path[:-1]:
        cur = cur[p]
    cur[path[-1]] = {"enum": [marker]}
    frag = next(iter(encodings(rng, ["x"] + tokens(path))))
    for d in impl.DRAFTS:
        schema = {"$ref": "#" + frag, "x": d2}
        store = None
        r = rng.random()
        if r < 0.25:
            # the document calls itself what a bundled metaschema is called (a patched copy of a draft): its own
            # pointers address IT
            schema = {"properties": {"p": {"$ref": "#" + frag}}, "x": d2, impl.IDKW[d]: rng.choice([impl.META_ID[d], impl.META_ID[7].rstrip("#"), impl.META_ID[4]])}
            ctx.count("document_named_like_a_metaschema")
        elif r < 0.4:
            # ... or what a document in the caller's store is called
            schema = {"properties": {"p": {"$ref": "#" + frag}}, "x": d2, impl.IDKW[d]: "http://vf.example/c14/doc.json"}
            store = {"http://vf.example/c14/doc.json": {"x": {"decoy": True}}}
            ctx.count("document_named_like_a_store_entry")
        case = {"draft": d, "schema": schema, "store": store}
        ctx.count("through_validator")
        ctx.case([d, schema])
        try:
            if "properties" in schema:
                from jsonschema import RefResolver
                kw = {"store": store} if store is not None else {}
                v = impl.CLS[d](schema, resolver=RefResolver.from_schema(schema, id_of=impl.CLS[d].ID_OF, **kw))
                ok = v.is_valid({"p": marker}) and not v.is_valid({"p": marker + "x"})
            else:
                v = impl.CLS[d](schema)
                ok = v.is_valid(marker) and not v.is_valid(marker + "x")
        except Exception as e:
            ctx.violation("validator-raised", case, "%s: %s" % (type(e).__name__, str(e)[:150]))
            continue
        if not ok:
            ctx.violation("validator-wrong-target", case, "reference did not reach the marker schema")


def whole_documents_through_the_resolver(ctx):
    """The empty fragment returns the whole document for EVERY document - also when the document is null, false, 0, an
    empty string / array / object - and when it is reached through resolve / resolve_from_url / resolving / $ref (the
    document supplied in the store; a handler for the same scheme serves a decoy and must not be asked)."""
    from jsonschema import RefResolver
    docs = [None, False, True, 0, 0.0, "", "s", [], {}, [None], {"a": None}, {"": None}, [0, False], 1]
    for n, doc in enumerate(docs):
        for scheme in ("http://store.example/whole/", "vf://handler.example/whole/"):
            url = "%sd%d.json" % (scheme, n)
            calls = []

            def handler(u, calls=calls):
                calls.append(u)
                return {"decoy": True, "a": "fetched"}
            for how in ("resolve", "resolve#", "resolve_from_url", "resolving", "pointer-into-it", "$ref"):
                R_ = RefResolver("", {}, store={url: doc}, handlers={"vf": handler, "http": handler})
                case = {"document": doc, "url": url, "via": how}
                ctx.case([doc, url, how])
                ctx.count("whole_documents_through_resolver")
                try:
                    if how == "resolve":
                        got = R_.resolve(url)[1]
                    elif how == "resolve#":
                        got = R_.resolve(url + "#")[1]
                    elif how == "resolve_from_url":
                        got = R_.resolve_from_url(url)
                    elif how == "resolving":
                        with R_.resolving(url) as got:
                            pass
                    elif how == "pointer-into-it":
                        if isinstance(doc, dict) and "a" in doc:
                            got = R_.resolve(url + "#/a")[1]
                            if got is not doc["a"] and got != doc["a"]:
                                ctx.violation("positive-wrong-value", case, "pointer /a returned %r" % (got,))
                            continue
                        try:
                            got = R_.resolve(url + "#/a")[1]
                        except RefResolutionError:
                            if calls:
                                ctx.violation("stored-document-retrieved", case, "handler asked for %r" % calls[:2])
                            continue
                        ctx.violation("negative-returned-value", case, "pointer /a into %r returned %r" % (doc, got))
                        continue
                    else:
                        if not isinstance(doc, (dict, bool)):
                            continue        # a reference to a non-schema value is outside this property (C03 finding)
                        v = impl.CLS[7]({"$ref": url}, resolver=R_)
                        got = doc if v.is_valid(1) == (doc is not False) else "verdict differs"
                except RefResolutionError as e:
                    ctx.violation("positive-raised", case, "RefResolutionError: %s" % str(e)[:100])
                    continue
                except Exception as e:
                    ctx.violation("positive-other-exception", case, "%s: %s" % (type(e).__name__, str(e)[:100]))
                    continue
                if calls:
                    ctx.violation("stored-document-retrieved", case, "handler asked for %r although the document is in the store" % calls[:2])
                elif not (got is doc or (got == doc and type(got) is type(doc))):
                    ctx.violation("positive-wrong-value", case, "returned %r instead of the whole document %r" % (got, doc))


def member_as_referrer(ctx, rng, doc, n):
    """The resolver's own base URI carries a pointer: its referrer is one MEMBER of a larger document that is supplied in the
    store under the fragment-less URI.  References into "the same document" ('#/...', '#', the absolute URI) address
    locations of the enclosing document, exactly as for any other resolver."""
    members = [(p, v) for p, v in locations(doc) if p and isinstance(v, (dict, list))]
    if not members:
        return
    U0 = "http://store.example/enclosing/e%d.json" % n
    for mp, member in rng.sample(members, min(2, len(members))):
        base = U0 + "#" + U.fragment_for(tokens(mp))
        try:
            R_ = RefResolver(base, member, store={U0: doc})
        except Exception as e:
            ctx.violation("positive-other-exception", {"document": doc, "base_uri": base}, "constructing the resolver: %s" % type(e).__name__)
            continue
        locs = list(locations(doc))
        for path, target in [locs[0]] + rng.sample(locs, min(6, len(locs))):
            frag = U.fragment_for(tokens(path))
            for ref in ("#" + frag, U0 + "#" + frag) + ((U0,) if not path else ()):
                case = {"document": doc, "member_path": list(mp), "base_uri": base, "ref": ref, "path": list(path), "member_as_referrer": True}
                ctx.case([doc, base, ref])
                ctx.count("member_as_referrer_lookups")
                try:
                    got = R_.resolve(ref)[1]
                except Exception as e:
                    ctx.violation("positive-raised", case, "%s: %s" % (type(e).__name__, str(e)[:120]))
                    continue
                if got is not target:
                    ctx.violation("positive-wrong-value", case, "returned %r instead of the addressed %r" % (got, target))


def under_other_conversion_limits(ctx, rng, doc):
    """The interpreter's int<->str conversion limit is a setting of the process (sys.set_int_max_str_digits, 0 = disabled,
    or far above / at the minimum): pointers through arrays address the same elements whatever it is set to, and it is
    what it was afterwards."""
    import sys
    R = resolver()
    locs = [(p, t) for p, t in locations(doc) if any(isinstance(x, int) for x in p)]
    if not locs:
        return
    before = sys.get_int_max_str_digits()
    for limit in (0, 640, 100000):
        sys.set_int_max_str_digits(limit)
        try:
            for path, target in rng.sample(locs, min(4, len(locs))):
                frag = U.fragment_for(tokens(path))
                ctx.count("pointers_under_other_conversion_limits")
                try:
                    got = R.resolve_fragment(doc, frag)
                except Exception as e:
                    ctx.violation("positive-raised", {"document": doc, "fragment": frag, "path": list(path), "int_max_str_digits": limit},
                                  "with sys.set_int_max_str_digits(%d): %s: %s" % (limit, type(e).__name__, str(e)[:100]))
                    continue
                if got is not target:
                    ctx.violation("positive-wrong-value", {"document": doc, "fragment": frag, "path": list(path), "int_max_str_digits": limit},
                                  "with sys.set_int_max_str_digits(%d): returned %r instead of the addressed %r" % (limit, got, target))
            if sys.get_int_max_str_digits() != limit:
                ctx.violation("positive-other-exception", {"document": doc, "int_max_str_digits": limit}, "the limit was %d before the lookups and is %d after" % (limit, sys.get_int_max_str_digits()))
        finally:
            sys.set_int_max_str_digits(before)


def reused_validator_pointers(ctx, rng, doc):
    """One validator object whose references are pointers into the same document, some addressing a marker schema and
    one addressing nothing: a pointer that failed cleanly (RefResolutionError) must leave the next ones resolving to
    exactly what they address."""
    locs = [(p, t) for p, t in locations(doc) if p]
    if not locs or not isinstance(doc, (dict, list)):
        return
    import copy
    path, _ = rng.choice(locs)
    marker = "marker-%d" % rng.randrange(10 ** 6)
    d2 = copy.deepcopy(doc)
    cur = d2
    for p in path[:-1]:
        cur = cur[p]
    cur[path[-1]] = {"enum": [marker]}
    good = next(iter(encodings(rng, ["x"] + tokens(path))))
    bad = next(iter(encodings(rng, ["x"] + tokens(path) + ["vf-missing", "0"])))
    for d in impl.DRAFTS:
        schema = {"x": d2, "properties": {"good": {"$ref": "#" + good}, "bad": {"$ref": "#" + bad}, "good2": {"items": {"$ref": "#" + good}}}}
        if rng.random() < 0.5:
            schema[impl.IDKW[d]] = "http://vf.example/c14/root.json"
        case = {"draft": d, "schema": schema, "reused": True, "marker": marker}
        ctx.count("reused_validator_pointer_sequences")
        ctx.case([d, schema, "reused"])
        v = impl.CLS[d](schema)
        steps = [({"good": marker}, True), ({"bad": 1}, "RefResolutionError"), ({"good": marker}, True), ({"good": marker + "x"}, False),
                 ({"good2": [marker, marker]}, True), ({"bad": 1, "good": marker}, "RefResolutionError"), ({"good2": [marker, 1]}, False),
                 ({"good": marker}, True)]
        for k, (inst, want) in enumerate(steps):
            try:
                got = v.is_valid(inst) if k % 2 == 0 else not list(v.iter_errors(inst))
            except RefResolutionError:
                got = "RefResolutionError"
            except Exception as e:
                got = "exc:%s: %s" % (type(e).__name__, str(e)[:80])
            if got == "RefResolutionError" and want != "RefResolutionError" and k > 0:
                ctx.violation("positive-raised-after-a-clean-failure", dict(case, step=k, instance=inst),
                              "step %d: RefResolutionError for a pointer that addresses the marker schema (an earlier pointer on this validator addressed nothing)" % k)
                break
            if got != want:
                ctx.violation("validator-wrong-target", dict(case, step=k, instance=inst), "step %d gave %r, expected %r" % (k, got, want))
                break
        # validate() raised for something found under ANOTHER base URI (a nested id, a stored document) and the caller still
        # holds the exception: pointers into the root document keep addressing the root document
        from jsonschema import RefResolver
        from jsonschema.exceptions import ValidationError
        other = "http://other.example/c14/sub/doc.json"
        schema2 = {"x": d2, "properties": {"good": {"$ref": "#" + good},
                                           "inner": {impl.IDKW[d]: "http://other.example/c14/nested/", "properties": {"q": {"type": "integer"}}},
                                           "far": {"$ref": other + "#/definitions/t"}}}
        store = {other: {"definitions": {"t": {"properties": {"q": {"type": "integer"}}}}, "x": {"decoy": True}}}
        v2 = impl.CLS[d](schema2, resolver=RefResolver.from_schema(schema2, id_of=impl.CLS[d].ID_OF, store=store))
        kept = []
        case2 = {"draft": d, "schema": schema2, "reused": True, "marker": marker, "exceptions_kept": True}
        for k, inst in enumerate([{"inner": {"q": "s"}}, {"far": {"q": "s"}}, {"far": {"q": "s"}, "inner": {"q": None}}]):
            try:
                v2.validate(inst)
            except ValidationError as e:
                kept.append(e)
            except Exception as e:
                ctx.violation("validator-raised", dict(case2, step=k), "%s: %s" % (type(e).__name__, str(e)[:100]))
                break
            ctx.count("pointers_after_validate_raised_and_exception_kept")
            try:
                whole = v2.resolver.resolve("#")[1]
                target = v2.resolver.resolve("#" + good)[1]
                verdicts = (v2.is_valid({"good": marker}), v2.is_valid({"good": marker + "x"}))
            except Exception as e:
                ctx.violation("positive-raised-after-a-clean-failure", dict(case2, step=k), "after validate() raised (exception still held): %s: %s" % (type(e).__name__, str(e)[:100]))
                break
            if whole is not schema2 or target != {"enum": [marker]} or verdicts != (True, False):
                ctx.violation("validator-wrong-target", dict(case2, step=k),
                              "after validate() raised (exception still held): '#' is the root document: %s; the marker pointer gives %r; verdicts %r" % (
                                  whole is schema2, target if not isinstance(target, dict) else sorted(target)[:3], verdicts))
                break
        del kept


def negative(ctx, rng, doc):
    R = resolver()
    locs = list(locations(doc))
    for _ in range(6):
        path, target = rng.choice(locs)
        toks = tokens(path)
        if isinstance(target, dict):
            cands = [k for k in HOSTILE_KEYS + ["zz", "0", "1"] if k not in target]
            bad, cls = rng.choice(cands), "missing_key"
        elif isinstance(target, list):
            r = rng.random()
            if r < 0.3:
                bad, cls = str(len(target)), "index_eq_len"
            elif r < 0.5:
                bad, cls = str(len(target) + rng.randrange(1, 10 ** rng.choice([1, 3, 25]))), "index_gt_len"
                if rng.random() < 0.08:
                    # more digits than int() converts by default (sys.get_int_max_str_digits() == 4300)
                    bad = "9" * rng.choice([4300, 4301, 5000, 12000])
                    ctx.count("neg:index_beyond_int_conversion_limit")
            elif r < 0.75 or not target:
                bad, cls = rng.choice(NON_INDEX), "non_index_token"
            else:
                # looks like an in-range index to int(), is not one
                bad, cls = disguise(rng, rng.randrange(len(target))), "non_index_token"
                ctx.count("neg:disguised_in_range_index")
        elif isinstance(target, str):
            bad, cls = rng.choice(["0", "1", "-1", "a", "", "length", "-"]), "token_on_string"
        else:
            bad, cls = rng.choice(["0", "a", "", "-", "real", "__class__"]), "token_on_scalar"
        rest = rng.choice([[], ["a"], ["0", ""]])
        frag = next(iter(encodings(rng, toks + [bad] + rest)))
        case = {"document": doc, "fragment": frag, "class": cls, "first_bad_token": bad}
        ctx.case([doc, frag])
        ctx.count("negative")
        ctx.count("neg:" + cls)
        try:
            got = R.resolve_fragment(doc, frag)
        except RefResolutionError:
            continue
        except Exception as e:
            ctx.violation("negative-other-exception", case, "%s: %s" % (type(e).__name__, str(e)[:150]))
            continue
        ctx.violation("negative-returned-value", case, "returned %r for a pointer that addresses nothing" % (got,))


FIXED_DOCS = [
    {"": 1}, {"": {"": {"": 2}}}, {"a": ["x", "y", "z"]}, {"a": "hello"}, {"a": 5, "b": None, "c": True},
    [[["deep"]]], {"~01": 1, "~1": 2, "/": 3, "~": 4, "~0": 5}, {"%25": 1, "%": 2, "%2525": 3},
    {"0": "zero", "1": "one", "-1": "minus"}, [{"0": [0, 1, 2]}], {"a": {"0": 1}, "b": [10, 11]},
    {"é": {"\U0001d11e": [1]}}, {" ": {"#": {"?": 1}}},
    {"long": ["e%d" % i for i in range(30)]}, [[i] for i in range(12)], {"a": [{"k": list(range(11))}]},
]


def run(ctx):
    impl.quiet()
    rr = random.Random(606)
    idx = 0
    for doc in FIXED_DOCS:
        idx += 1
        if ctx.mine(idx):
            positive(ctx, rr, doc)
            for _ in range(30):
                negative(ctx, rr, doc)
            through_validator(ctx, rr, doc)
    # every hostile key at first / middle / last position
    for k in HOSTILE_KEYS:
        for k2 in HOSTILE_KEYS[::5]:
            idx += 1
            if not ctx.mine(idx):
                continue
            doc = {k: {k2: {k: [1, {k2: "leaf"}]}}, "plain": [k, k2]}
            positive(ctx, rr, doc)
            negative(ctx, rr, doc)
            through_validator(ctx, rr, doc)
            reused_validator_pointers(ctx, rr, doc)
            member_as_referrer(ctx, rr, doc, idx)
    short_lived_documents(ctx, ctx.scale(400, 5000))
    if ctx.shard == 0:
        whole_documents_through_the_resolver(ctx)
    rng = ctx.rng
    for i in range(ctx.scale(1500, 25000)):
        doc = gen_doc(rng, rng.choice([2, 3, 4]))
        positive(ctx, rng, doc)
        negative(ctx, rng, doc)
        if i % 3 == 0:
            through_validator(ctx, rng, doc)
        if i % 4 == 1:
            reused_validator_pointers(ctx, rng, doc)
        if i % 4 == 2:
            member_as_referrer(ctx, rng, doc, i)
        if i % 4 == 3:
            under_other_conversion_limits(ctx, rng, doc)
        if i % 400 == 0:
            ctx.sample({"document": doc, "fragments": [U.fragment_for(tokens(p)) for p, _ in list(locations(doc))[:4]]})


def replay(ctx, rec):
    c = rec["case"]
    R = resolver()
    if "int_max_str_digits" in c and "fragment" in c:
        import sys
        before = sys.get_int_max_str_digits()
        sys.set_int_max_str_digits(c["int_max_str_digits"])
        try:
            target = c["document"]
            for p in c["path"]:
                target = target[p]
            try:
                got = R.resolve_fragment(c["document"], c["fragment"])
            except Exception as e:
                ctx.violation("positive-raised", c, "%s: %s" % (type(e).__name__, str(e)[:100]))
                return
            if got is not target:
                ctx.violation("positive-wrong-value", c, "returned %r instead of the addressed %r" % (got, target))
        finally:
            sys.set_int_max_str_digits(before)
        return
    if c.get("member_as_referrer"):
        doc = c["document"]
        member = doc
        for p in c["member_path"]:
            member = member[p]
        target = doc
        for p in c["path"]:
            target = target[p]
        U0 = c["base_uri"].split("#")[0]
        try:
            got = RefResolver(c["base_uri"], member, store={U0: doc}).resolve(c["ref"])[1]
        except Exception as e:
            ctx.violation("positive-raised", c, "%s: %s" % (type(e).__name__, str(e)[:120]))
            return
        if got is not target:
            ctx.violation("positive-wrong-value", c, "returned %r instead of the addressed %r" % (got, target))
        return
    if "via" in c:
        whole_documents_through_the_resolver(ctx)       # deterministic and small: the whole cell is run again
        return
    if "document" in c:
        doc, frag = c["document"], c["fragment"]
        try:
            got = R.resolve_fragment(doc, frag)
            out = ("value", got)
        except RefResolutionError:
            out = ("RefResolutionError", None)
        except Exception as e:
            out = (type(e).__name__, None)
        try:
            want = ("value", U.ptr_walk(doc, frag))
        except U.PointerError:
            want = ("RefResolutionError", None)
        if out[0] != want[0] or (out[0] == "value" and not (out[1] == want[1] and type(out[1]) is type(want[1]))):
            ctx.violation("replay", c, "implementation %r, own evaluator %r" % (out, want))
    elif c.get("reused"):
        v = impl.CLS[c["draft"]](c["schema"])
        m = c["marker"]
        for inst, want in (({"good": m}, True), ({"bad": 1}, None), ({"good": m}, True), ({"good": m + "x"}, False)):
            try:
                got = v.is_valid(inst)
            except RefResolutionError:
                got = None
            except Exception as e:
                got = type(e).__name__
            if got != want:
                ctx.violation("replay", c, "instance %r gave %r, expected %r" % (inst, got, want))
                break
    else:
        if c.get("store") is not None:
            from jsonschema import RefResolver
            v = impl.CLS[c["draft"]](c["schema"], resolver=RefResolver.from_schema(c["schema"], id_of=impl.CLS[c["draft"]].ID_OF, store=c["store"]))
        else:
            v = impl.CLS[c["draft"]](c["schema"])
        try:
            list(v.iter_errors({"p": "x"} if "properties" in c["schema"] else "x"))
        except Exception as e:
            ctx.violation("replay", c, "%s" % type(e).__name__)
