"""C11 - check_schema accepts exactly what the draft's metaschema allows.

Monitor: reference-model comparator.  The oracle is the independent
evaluator M applied to the bundled metaschema *file* (read by the harness
itself); check_schema must return normally exactly when M says the candidate
satisfies it, and otherwise raise SchemaError and nothing else.
"""
import json
import os
import random

from jsonschema import exceptions as X

from vf import impl, util
from vf.gen import values as V
from vf.gen.mutate import WRONG, mutate_schema
from vf.gen.schema import VOCAB, SchemaGen
from vf.model import eval as M
from vf.model.equal import jeq, loose

ID = "C11"
LEVEL = "exploration"
RULE = ("candidates: grammar schemas (valid by construction), the same with 1-3 keyword values replaced by a value of "
        "another JSON shape at any depth (32 shapes), every keyword x every shape at the root and one level down, "
        "non-object values, booleans, the four metaschemas offered to every draft; four drafts.  A case is (draft, "
        "candidate); non-trivial when the candidate is an object with >= 1 vocabulary keyword; distinct by canonical JSON.")
ASSUMPTIONS = ["oracle: vf/model/eval.py evaluating jsonschema/schemas/draft*.json as read from disk by the harness",
               "`format` inside metaschemas is not enforced by either side (check_schema passes no format checker)",
               "candidates whose verdict depends on bool/int equality (e.g. duplicates in `type` arrays under uniqueItems) are delegated to C08"]
REPORT_COUNTERS = ["compared", "accepted", "rejected", "mutated_depth2plus", "delegated_to_C08", "out_of_domain",
                   "metaschemas_self_accepted", "keyword_shape_cells"]


def shards(tier):
    return 8 if tier == "quick" else 16


def floors(tier):
    return {"compared": 30000, "accepted": 8000, "rejected": 8000, "mutated_depth2plus": 1000,
            "metaschemas_self_accepted": 4, "keyword_shape_cells": 3000, "calibration_cases": 2000,
            "dialects_registered": 4, "checked_after_dialect_registration": 400,
            "respelled_duplicates_in_unique_arrays": 500, "format_only_objections": 50, "checked_while_a_listing_is_pending": 1000, "decimal_valued_candidates": 20, "enumerated_values_respelled": 600, "deeply_nested_candidates": 800}


def load_metaschemas():
    out = {}
    for d in impl.DRAFTS:
        with open(os.path.join(util.repo_dir(), "jsonschema", "schemas", "draft%d.json" % d)) as f:
            out[d] = json.load(f)
    return out


class Oracle:
    def __init__(self):
        self.meta = load_metaschemas()

    def verdict(self, d, cand, eq):
        return M.Model(d, self.meta[d], eq=eq).valid(cand)


def compare(ctx, O, d, cand, tag=""):
    cls = impl.CLS[d]
    case = {"draft": d, "candidate": cand}
    try:
        strict = O.verdict(d, cand, jeq)
        lo = O.verdict(d, cand, loose)
    except (M.OutOfDomain, RecursionError):
        ctx.count("out_of_domain")
        return
    if strict != lo:
        ctx.count("delegated_to_C08")
        return
    try:
        cls.check_schema(cand)
        got = True
    except X.SchemaError:
        got = False
    except Exception as e:
        ctx.violation("check_schema-raised-other", case, "%s: %s" % (type(e).__name__, str(e)[:150]))
        return
    ctx.count("compared")
    ctx.count("accepted" if strict else "rejected")
    ctx.case([d, cand], nontrivial=isinstance(cand, dict) and any(k in VOCAB[d] for k in cand))
    if got != strict:
        ctx.violation("gate", case, "check_schema %s, metaschema (model) says %s %s" % (
            "accepts" if got else "rejects", "valid" if strict else "invalid", tag))
        return
    # the verdict is the same while a caller still holds an unfinished listing of this candidate's metaschema violations
    # (e.g. an error report being paged through): a suspended iterator has no say in what check_schema decides
    if not strict and (ctx.counters.get("compared", 0) % 6 == 0 or tag == "(replay)"):
        pending = []
        try:
            for _ in range(2):
                it = cls(cls.META_SCHEMA).iter_errors(cand)
                if next(it, None) is not None:
                    pending.append(it)
            ctx.count("checked_while_a_listing_is_pending")
            for c2 in (cand, json.loads(json.dumps(cand))):
                try:
                    cls.check_schema(c2)
                    ctx.violation("gate", dict(case, pending_listing=True), "check_schema accepts the candidate while an unfinished iter_errors "
                                  "listing of the same candidate is held; alone it rejects it %s" % tag)
                    break
                except X.SchemaError:
                    pass
        except (TypeError, ValueError, OverflowError):
            pass            # not JSON-serialisable (huge floats, ...): the copy is skipped
        finally:
            for it in pending:
                it.close()


def confusable_variants(x):
    """Copies of x in which exactly one scalar is replaced by a Python-equal but JSON-different value."""
    out = []
    swaps = {True: [1, 1.0], False: [0, 0.0]}

    def alt(v):
        if isinstance(v, bool):
            return swaps[v]
        if isinstance(v, int) and v in (0, 1):
            return [bool(v), float(v)]
        if isinstance(v, int) and abs(v) < 2 ** 50:
            return [float(v)]
        if isinstance(v, float) and v in (0.0, 1.0):
            return [bool(v), int(v)]
        if isinstance(v, float) and v == int(v) and abs(v) < 2 ** 50:
            return [int(v)]
        return []

    def go(node, rebuild):
        if isinstance(node, dict):
            for k, v in node.items():
                go(v, lambda nv, k=k, node=node, rebuild=rebuild: rebuild(dict(node, **{k: nv})))
        elif isinstance(node, list):
            for i, v in enumerate(node):
                go(v, lambda nv, i=i, node=node, rebuild=rebuild: rebuild(node[:i] + [nv] + node[i + 1:]))
        else:
            for a in alt(node):
                out.append(rebuild(a))
    go(x, lambda nv: nv)
    return out


def respelled(x):
    """A JSON-equal copy of x that is spelled differently: integers as floats (and back), members in reverse order."""
    if isinstance(x, bool) or x is None or isinstance(x, str):
        return x
    if isinstance(x, int):
        return float(x) if abs(x) < 2 ** 53 else x
    if isinstance(x, float):
        return int(x) if x.is_integer() and abs(x) < 2 ** 53 else x
    if isinstance(x, list):
        return [respelled(v) for v in x]
    return {k: respelled(x[k]) for k in reversed(list(x))}


def duplicate_candidates(d, S, value):
    """Arrays the metaschema declares `uniqueItems` for, holding two JSON-equal members that are spelled differently."""
    out = []
    if d == 3 and isinstance(S, dict):
        out += [{"type": [S, respelled(S)]}, {"disallow": ["string", S, respelled(S)]}, {"type": [respelled(S), "null", S]},
                {"properties": {"a": {"type": [S, respelled(S)]}}}]
    if d in (3, 4):
        out += [{"enum": [value, respelled(value)]}, {"enum": [[value], 0, [respelled(value)]]},
                {"items": {"enum": [{"k": value}, {"k": respelled(value)}]}}]
    return out


def run(ctx):
    impl.quiet()
    O = Oracle()
    if ctx.shard == 0:
        from vf import selftest
        n, bad, skipped = selftest.calibrate_model()
        ctx.count("calibration_cases", n - len(bad))
        if bad:
            raise RuntimeError("model calibration failed: %r" % (bad[:3],))
        for d in impl.DRAFTS:
            if impl.CLS[d].META_SCHEMA != O.meta[d]:
                ctx.notes["meta_schema_attr_differs_from_file_d%d" % d] = True
            # each bundled metaschema is accepted by its own class
            try:
                impl.CLS[d].check_schema(O.meta[d])
                ctx.count("metaschemas_self_accepted")
            except Exception as e:
                ctx.violation("metaschema-self", {"draft": d, "candidate": "<bundled metaschema>"},
                              "rejected by its own class: %s" % type(e).__name__)
            try:
                impl.CLS[d].check_schema(impl.CLS[d].META_SCHEMA)
            except Exception as e:
                ctx.violation("metaschema-self", {"draft": d, "candidate": "<META_SCHEMA attribute>"}, type(e).__name__)
            for d2 in impl.DRAFTS:
                compare(ctx, O, d2, O.meta[d], tag="(metaschema of draft %d)" % d)
    # deterministic: keyword x shape at root and nested
    idx = 0
    allkw = sorted(set(sum(VOCAB.values(), [])) | {"required", "definitions", "format", "$ref", "id", "$id", "$schema",
                                                  "title", "description", "default", "examples", "readOnly", "$comment"})
    for d in impl.DRAFTS:
        for kw in allkw:
            for shape in WRONG:
                idx += 1
                if not ctx.mine(idx):
                    continue
                ctx.count("keyword_shape_cells")
                compare(ctx, O, d, {kw: shape})
                compare(ctx, O, d, {"properties": {"a": {kw: shape}}})
                compare(ctx, O, d, {"items": [{kw: shape}], "additionalProperties": {kw: shape}})
                if d >= 4:
                    compare(ctx, O, d, {"definitions": {"x": {"not": {kw: shape}}}})
                else:
                    compare(ctx, O, d, {"extends": [{kw: shape}], "type": [{kw: shape}]})
        for shape in WRONG:
            idx += 1
            if ctx.mine(idx):
                compare(ctx, O, d, shape)
    # strings that only the metaschema's `format` annotations (regex, uri, uri-reference) could object to: check_schema
    # passes no format checker, so they are accepted like any other string
    from vf.props.c12 import BAD_REGEXES
    for d in impl.DRAFTS:
        for bad in BAD_REGEXES + ["::not a uri::", "a b", "%zz"]:
            idx += 1
            if not ctx.mine(idx):
                continue
            ctx.count("format_only_objections")
            for cand in ({"pattern": bad}, {"patternProperties": {bad: {}}}, {"properties": {"a": {"pattern": bad}}},
                         {"$schema": bad}, {impl.IDKW[d]: bad}, {"items": [{"$ref": bad}]}):
                compare(ctx, O, d, cand, tag="(only a `format` in the metaschema could object)")
    # numbers handed over as decimal.Decimal (json.loads(text, parse_float=Decimal)) where the metaschema says "number"
    from decimal import Decimal
    for d in impl.DRAFTS:
        mo = "divisibleBy" if d == 3 else "multipleOf"
        for val in (Decimal("0.25"), Decimal("3"), Decimal("-1.5"), Decimal("1e2"), Decimal("0"), Decimal("-0.01")):
            idx += 1
            if not ctx.mine(idx):
                continue
            ctx.count("decimal_valued_candidates")
            cands = [{"minimum": val}, {"maximum": val, "minimum": Decimal("-7.5")}, {mo: val}, {"properties": {"a": {"maximum": val}}},
                     {"items": [{mo: val}]}, {"enum": [val, 1]}, {"default": val, "maxLength": val}, {"minItems": val}]
            if d >= 6:
                cands += [{"exclusiveMinimum": val}, {"const": val}, {"exclusiveMaximum": val, "contains": {"minimum": val}}]
            for cand in cands:
                compare(ctx, O, d, cand, tag="(Decimal-valued keywords)")
    # where the metaschema lists the admissible values (the type names): the value spelled as an array of its characters,
    # an array holding it, an object keyed by it - none of them IS it
    for d in impl.DRAFTS:
        for tname in ("null", "string", "integer", "object", "any"):
            idx += 1
            if not ctx.mine(idx):
                continue
            spellings = [list(tname), [list(tname)], {tname: None}, [tname, list(tname)], tname.upper(), tname + " ", [tname[:1], tname[1:]], list(tname)[::-1]]
            for sp in spellings:
                for cand in ({"type": sp}, {"properties": {"a": {"type": sp}}}, {"items": [{"type": sp}]}, {"disallow": sp} if d == 3 else {"not": {"type": sp}},
                             {"definitions": {"t": {"type": sp}}}, {"additionalProperties": {"type": sp}}):
                    ctx.count("enumerated_values_respelled")
                    compare(ctx, O, d, cand, tag="(an enumerated value spelled as an array of its characters / wrapped / re-cased)")
    # candidates nested dozens of levels deep (the metaschema refers to itself at every level): the verdict is the bottom's
    for d in impl.DRAFTS:
        steps = [lambda x: {"properties": {"a": x}}, lambda x: {"items": x}, lambda x: {"additionalProperties": x}, lambda x: {"items": [{}, x]},
                 lambda x: {"dependencies": {"k": x}}, lambda x: {"patternProperties": {"^a": x}}]
        steps += [lambda x: {"extends": [x]}, lambda x: {"disallow": [x]}, lambda x: {"type": ["null", x]}] if d == 3 else \
                 [lambda x: {"allOf": [x]}, lambda x: {"not": x}, lambda x: {"anyOf": [{}, x]}, lambda x: {"definitions": {"t": x}}]
        if d >= 6:
            steps += [lambda x: {"contains": x}, lambda x: {"propertyNames": x}]
        if d >= 7:
            steps += [lambda x: {"if": x, "then": {}}, lambda x: {"if": {}, "else": x}]
        for depth in (20, 35, 50, 60, 75):
            for si, step in enumerate(steps + ["mixed"]):
                idx += 1
                if not ctx.mine(idx):
                    continue
                for bottom in ({"type": "string"}, {"minLength": -1}, {"type": 5}, {}, {"required": "a"} if d != 3 else {"required": "yes"}):
                    cand = bottom
                    for lvl in range(depth):
                        f = steps[(lvl + si) % len(steps)] if step == "mixed" else step
                        cand = f(cand)
                    ctx.count("deeply_nested_candidates")
                    compare(ctx, O, d, cand, tag="(nested %d levels deep)" % depth)
    rng = ctx.rng
    dialect_phase(ctx, random.Random(1111))
    for i in range(ctx.scale(1500, 25000)):
        d = impl.DRAFTS[i % 4]
        g = SchemaGen(rng, d, maxdepth=rng.choice([1, 2, 3]))
        S = g.schema()
        compare(ctx, O, d, S, tag="(generated)")
        for _ in range(3):
            bad, where = mutate_schema(rng, d, S, n=rng.choice([1, 1, 2, 3]),
                                       extra_keywords=rng.sample(allkw, 2))
            if any(len(p) >= 2 for p, _ in where):
                ctx.count("mutated_depth2plus")
            compare(ctx, O, d, bad, tag="(mutated %r)" % (where,))
        if rng.random() < 0.2:
            compare(ctx, O, d, V.value(rng, 3))
        if i % 4 == 0:
            for cand in duplicate_candidates(d, S, V.value(rng, 2)):
                ctx.count("respelled_duplicates_in_unique_arrays")
                compare(ctx, O, d, cand, tag="(JSON-equal members spelled differently in a uniqueItems array)")
        if i % 5 == 0:
            # right after an accepted schema: the same schema with true<->1, false<->0, 1<->1.0 swapped somewhere
            for sw in confusable_variants(S)[:4]:
                ctx.count("confusable_followups")
                compare(ctx, O, d, S, tag="(generated)")
                compare(ctx, O, d, sw, tag="(python-equal variant right after its original)")
        if i % 301 == 0:
            ctx.sample({"draft": d, "candidate": bad})


def dialect_child(tier, seed, shard, nshards, d, cands):
    """Forked child: register a dialect under the SAME metaschema id with a modified metaschema (the documented
    extend-then-edit-META_SCHEMA workflow), then the stock class's check_schema must still follow ITS bundled
    metaschema - including through the `$ref: "#"` / definitions references inside that metaschema."""
    import copy
    from jsonschema import validators
    from vf.ctx import Ctx
    c = Ctx("C11", tier, seed, shard, nshards)
    impl.quiet()
    O = Oracle()
    base = impl.CLS[d]
    D = validators.extend(base, version="vf-dialect-%d" % d)
    meta = copy.deepcopy(base.META_SCHEMA)
    props = meta.setdefault("properties", {})
    props["title"] = {"type": "integer"}                       # stock: string
    props["maxLength"] = {"type": "string"}                    # stock: non-negative integer
    props["vf-extra"] = {"type": "null"}
    if isinstance(meta.get("definitions"), dict):
        for k in meta["definitions"]:
            if "nteger" in k and isinstance(meta["definitions"][k], dict) and "minimum" in meta["definitions"][k]:
                meta["definitions"][k]["minimum"] = 5
    D.META_SCHEMA = meta
    c.count("dialects_registered")
    for cand in cands:
        c.count("checked_after_dialect_registration")
        compare(c, O, d, cand, tag="(after registering a dialect under the same metaschema id)")
    return c.result()


def dialect_phase(ctx, rng):
    from vf.props.c18 import fork_run
    for d in impl.DRAFTS:
        if not ctx.mine(d):
            continue
        g = SchemaGen(rng, d, maxdepth=2)
        cands = []
        for t, ml, mi in (("ok", 1, 0), (5, 1, 0), ("ok", "x", 0), ("ok", 3, 2), ("ok", 1, -1), (None, 0, 7)):
            leaf = {"title": t, "maxLength": ml, "minItems": mi}
            cands += [leaf, {"properties": {"a": leaf}}, {"items": leaf}, {"items": [leaf]}, {"additionalProperties": leaf},
                      {"properties": {"a": {"items": {"properties": {"b": leaf}}}}}, {"vf-extra": 1, "properties": {"a": {"vf-extra": 1}}}]
            if d >= 4:
                cands += [{"allOf": [leaf]}, {"not": leaf}, {"definitions": {"x": leaf}}, {"dependencies": {"a": leaf}}]
            else:
                cands += [{"extends": [leaf]}, {"type": [leaf]}, {"dependencies": {"a": leaf}}]
        for _ in range(40):
            S = g.schema()
            cands.append(S)
            bad, _w = mutate_schema(rng, d, S, n=1, extra_keywords=["title", "maxLength"])
            cands.append(bad)
        st, res = fork_run(lambda: dialect_child(ctx.tier, ctx.seed, ctx.shard, ctx.nshards, d, cands))
        if st != "ok":
            ctx.count("dialect_child_failed")
            ctx.notes.setdefault("child_errors", []).append(str(res)[-500:])
            continue
        ctx.evaluations += res["evaluations"]
        ctx.counters.update(res["counters"])
        ctx.hashes.update(res["hashes"])
        for v in res["violations"]:
            ctx.violation(v["kind"], v["case"], v["detail"], mech=v["mech"])


def replay(ctx, rec):
    impl.quiet()
    c = rec["case"]
    compare(ctx, Oracle(), c["draft"], c["candidate"], tag="(replay)")
