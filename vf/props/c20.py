"""C20 - the draft is chosen from $schema, consistently in validate(), CLI and helpers.

Monitor: own id table + behavioural comparator.  validator_for is compared
with a table written down here; jsonschema.validate() and the CLI are
compared with the selected class on (schema, instance) pairs chosen - with
the independent model M - so that the drafts DISAGREE on them (otherwise
dispatch would be invisible); registration histories run in forked children.
"""
import io
import json
import os
import random
import shutil
import tempfile
import warnings

import jsonschema
from jsonschema import RefResolver, cli, validators
from jsonschema import exceptions as X

from vf import impl
from vf.model import eval as M
from vf.obs import tripwire
from vf.obs.fingerprint import fp

ID = "C20"
LEVEL = "exploration"
RULE = ("(schema fragment, instance) pairs on which drafts disagree (boolean vs numeric exclusiveMinimum, integer-valued "
        "floats, const/contains/if, boolean subschemas, id vs $id bases, draft-3 required/divisibleBy/extends/disallow/"
        "string dependencies, propertyNames) x $schema spellings (each registered id with/without '#', unknown URIs, "
        "non-URI strings, missing, boolean schema) x {validator_for, validator_for with default, jsonschema.validate, "
        "explicit cls, CLI without --validator} x histories of 0-5 later registrations (validates() / create(version=)) in "
        "forked children.  A case is (history, schema, instance); non-trivial when at least two drafts give different "
        "outcomes for the pair; distinct by canonical JSON.")
ASSUMPTIONS = ["$schema values are strings (the quantifier's spellings); case variants of the URI are not generated",
               "behaviour of a class is taken from the class itself (C01 judges it); here only the dispatch is judged",
               "new registrations use fresh metaschema ids (collisions with existing ids are not claimed)"]
REPORT_COUNTERS = ["cases", "validator_for_checked", "validate_checked", "explicit_cls_checked", "cli_checked",
                   "spelling:exact#", "spelling:exact", "spelling:unknown-uri", "spelling:non-uri", "spelling:missing",
                   "spelling:boolean-schema", "warnings_checked", "histories_with_registrations", "registrations",
                   "distinguished_pairs", "model_confirms_disagreement"]
TRIPWIRE_EXPECTED = ("urlopen",)

NAMES = {3: "Draft3Validator", 4: "Draft4Validator", 6: "Draft6Validator", 7: "Draft7Validator"}
IDS = {d: "http://json-schema.org/draft-0%d/schema" % d for d in (3, 4, 6, 7)}
UNKNOWN_URIS = ["http://json-schema.org/draft-05/schema#", "https://json-schema.org/draft-07/schema#",
                "http://json-schema.org/draft-07/schema#/", "http://json-schema.org/draft-07/schema#foo",
                "http://json-schema.org/draft-07/schema/", "http://json-schema.org/draft-7/schema",
                "https://json-schema.org/draft/2019-09/schema", "http://example.com/my-meta#", "urn:example:meta",
                "http://json-schema.org/schema#", "json-schema.org/draft-07/schema"]
# (strings that urllib normalises onto a registered id - leading whitespace, upper-case scheme - are not generated:
#  the property speaks of URIs *equal* to an id and of *unrecognised* ones, not of this grey zone)
NON_URIS = ["draft7", "", "7", "Draft7Validator", "latest", "draft-04", "schema#", "#"]
STORE = {"http://base.example/doc.json": {"type": "integer"}, "http://other.example/dir/doc.json": {"type": "string"}}

# fragments on which drafts disagree (either in verdict or in whether the schema is acceptable at all)
PAIRS = [
    ({"minimum": 1, "exclusiveMinimum": True}, 1), ({"exclusiveMinimum": 1}, 1), ({"type": "integer"}, 1.0), ({"const": 1}, 2),
    ({"contains": {"type": "null"}}, [1]), ({"if": {"type": "integer"}, "then": {"minimum": 5}}, 1), ({"items": False}, [1]),
    ({"properties": {"a": {"required": True}}}, {}), ({"required": ["a"]}, {}), ({"divisibleBy": 2}, 3), ({"multipleOf": 2}, 3),
    ({"extends": [{"type": "string"}]}, 1), ({"disallow": ["integer"]}, 1), ({"dependencies": {"a": "b"}}, {"a": 1}),
    ({"propertyNames": {"maxLength": 1}}, {"ab": 1}), ({"allOf": [{"type": "string"}]}, 1), ({"not": {}}, 1),
    ({"type": "any"}, 1), ({"type": [{"type": "string"}, "null"]}, 1), ({"maxProperties": 0}, {"a": 1}),
    ({"id": "http://base.example/root.json", "$id": "http://other.example/dir/root.json", "items": {"$ref": "doc.json"}}, [1, "s"]),
    ({"type": "integer", "maximum": 3, "exclusiveMaximum": True}, 3.0), ({"enum": [1]}, 1), ({"type": "string"}, "s"),
    (True, 1), (False, 1), (12, 1), ([], 1), ("s", 1), (None, 1), ([{"$schema": "x"}], 1),
    # schemas the selected class's check_schema rejects for their id (it is looked at before anything else happens)
    ({"id": 12, "$id": 12, "type": "string"}, 1), ({"$id": ["x"], "id": ["x"]}, {}), ({"id": None, "$id": None, "properties": {"a": {"$id": 5, "id": 5}}}, {"a": 1}),
    # several failures at once, a boolean `false` subschema (its error names no keyword) among them
    ({"properties": {"a": False, "b": {"type": "string"}}}, {"a": 1, "b": 1}), ({"items": [False, {"type": "null"}]}, [1, 1]),
    ({"anyOf": [False, {"type": "string"}, {"properties": {"a": False}}]}, {"a": 1}), ({"additionalProperties": False, "required": ["z"], "minProperties": 3}, {"a": 1}),
    ({"properties": {"a": {"type": "string"}, "b": {"type": "string"}}, "required": ["c"]}, {"a": 1, "b": 2}),
    ({"oneOf": [{"type": "string"}, {"anyOf": [{"type": "null"}, False]}]}, 1),
    # local references below the schema's own id: the selected class decides which keyword is the id
    ({"id": "http://base.example/root.json", "definitions": {"a": {"type": "integer"}}, "properties": {"p": {"$ref": "#/definitions/a"}}}, {"p": "x"}),
    ({"$id": "http://base.example/root.json", "definitions": {"a": {"type": "integer"}}, "properties": {"p": {"$ref": "#/definitions/a"}}}, {"p": "x"}),
    ({"id": "http://base.example/root.json", "$id": "http://base.example/root.json", "definitions": {"a": {"type": "integer"}},
      "properties": {"p": {"$ref": "root.json#/definitions/a"}, "q": {"$ref": "http://base.example/root.json#/definitions/a"}}}, {"p": "x", "q": 1.5}),
]


def shards(tier):
    return 8 if tier == "quick" else 16


def floors(tier):
    f = {"cases": 8000, "validator_for_checked": 8000, "validate_checked": 8000, "explicit_cls_checked": 2000, "cli_checked": 100, "cli_explicit_validator_checked": 50, "cli_several_instances_checked": 40,
         "warnings_checked": 1000, "histories_with_registrations": 30, "registrations": 80, "registrations_under_odd_version_names": 40, "registrations_after_replacing_the_metaschema": 25, "registrations_through_versioned_extend": 12, "distinguished_pairs": 6,
         "model_confirms_disagreement": 6, "missing_dollar_schema_in_dict_subclass": 500, "non_dict_mapping_schemas": 3000}
    for s in ("exact#", "exact", "unknown-uri", "non-uri", "missing", "boolean-schema"):
        f["spelling:" + s] = 200
    return f


def own_table(spelling, registered):
    """What a $schema string designates: a registered id (one trailing '#' = empty fragment ignored) or nothing."""
    key = spelling[:-1] if spelling.endswith("#") else spelling
    return registered.get(key)


def outcome(fn):
    try:
        fn()
        return ("valid",)
    except X.SchemaError as e:
        return ("SchemaError", fp(e))
    except X.ValidationError as e:
        return ("ValidationError", fp(e))
    except X.RefResolutionError:
        return ("RefResolutionError",)
    except X.UnknownType:
        return ("UnknownType",)
    except Exception as e:
        return ("exc:" + type(e).__name__,)


class Expected(tuple):
    """What the selected class says, without going through best_match: ("valid",) | ("SchemaError", fp) |
    ("ValidationError", <set of fingerprints of the class's errors and of the errors in their context trees>) | ..."""

    def __eq__(self, have):
        if self[0] == "ValidationError" and isinstance(self[1], frozenset):
            return isinstance(have, tuple) and len(have) == 2 and have[0] == "ValidationError" and have[1] in self[1]
        return tuple.__eq__(self, have)

    def __ne__(self, have):
        return not self.__eq__(have)

    __hash__ = tuple.__hash__


def expected_outcome(cls, schema, inst):
    from vf.obs.fingerprint import closure
    try:
        cls.check_schema(schema)
        resolver = RefResolver("", schema, store=dict(STORE))
        errs = list(cls(schema, resolver=resolver).iter_errors(inst))
    except X.SchemaError as e:
        return Expected(("SchemaError", fp(e)))
    except X.RefResolutionError:
        return Expected(("RefResolutionError",))
    except X.UnknownType:
        return Expected(("UnknownType",))
    except Exception as e:
        return Expected(("exc:" + type(e).__name__,))
    if not errs:
        return Expected(("valid",))
    return Expected(("ValidationError", frozenset(fp(e) for e in closure(errs))))


def spellings(rng, registered_keys, future=()):
    out = []
    # ids that a LATER step of the history registers are, for now, unrecognised URIs (both spellings):
    # a lookup before the registration must not influence the lookup after it
    for key in future:
        out.append(("unknown-uri", key + "#", None))
        out.append(("unknown-uri", key, None))
    for key in registered_keys:
        out.append(("exact#", key + "#", key))
        out.append(("exact", key, key))
    for u in rng.sample(UNKNOWN_URIS, 3):
        out.append(("unknown-uri", u, None))
    for u in rng.sample(NON_URIS, 2):
        out.append(("non-uri", u, None))
    out.append(("missing", None, None))
    return out


def check_dispatch(rec, rng, registered, history, scratch, future=()):
    """registered: own table {id-without-#: class}."""
    latest = impl.CLS[7]
    for frag, inst in PAIRS:
        if not isinstance(frag, (bool, dict)):
            # not an object: nothing can be declared, the latest draft decides (and rejects it); an explicit class decides
            rec.count("cases")
            rec.case([history, frag, inst])
            want = expected_outcome(latest, frag, inst)
            have = outcome(lambda: jsonschema.validate(inst, frag))
            rec.count("validate_checked")
            if want != have:
                rec.violation("validate-dispatch", {"history": history, "schema": frag, "instance": inst}, "validate gives %r, the latest draft %r" % (have, want))
            for dd in impl.DRAFTS:
                want = expected_outcome(impl.CLS[dd], frag, inst)
                have = outcome(lambda: jsonschema.validate(inst, frag, cls=impl.CLS[dd]))
                rec.count("explicit_cls_checked")
                if want != have:
                    rec.violation("explicit-class-does-not-win", {"history": history, "schema": frag, "instance": inst, "cls": dd},
                                  "cls=Draft%dValidator: validate gives %r, that class %r" % (dd, have, want))
            continue
        if isinstance(frag, bool):
            for dd in impl.DRAFTS:
                want = expected_outcome(impl.CLS[dd], frag, inst)
                have = outcome(lambda: jsonschema.validate(inst, frag, cls=impl.CLS[dd]))
                rec.count("explicit_cls_checked")
                if want != have:
                    rec.violation("explicit-class-does-not-win", {"history": history, "schema": frag, "instance": inst, "cls": dd},
                                  "cls=Draft%dValidator with a boolean schema: validate gives %r, that class %r" % (dd, have, want))
            rec.count("spelling:boolean-schema")
            rec.count("cases")
            rec.case([history, frag, inst])
            with warnings.catch_warnings(record=True) as w:
                warnings.simplefilter("always")
                got = validators.validator_for(frag)
                got2 = validators.validator_for(frag, default=impl.CLS[4])
            rec.count("validator_for_checked")
            if got is not latest or got2 is not impl.CLS[4] or w:
                rec.violation("boolean-schema-dispatch", {"history": history, "schema": frag},
                              "validator_for(%r) -> %s / default -> %s, warnings %d" % (frag, got.__name__, got2.__name__, len(w)))
            want = expected_outcome(latest, frag, inst)
            have = outcome(lambda: jsonschema.validate(inst, frag, resolver=RefResolver("", frag, store=dict(STORE))))
            rec.count("validate_checked")
            if want != have:
                rec.violation("validate-dispatch", {"history": history, "schema": frag, "instance": inst}, "validate gives %r, selected class %r" % (have, want))
            continue
        for kind, spelling, key in spellings(rng, sorted(registered), future):
            schema = dict(frag)
            if spelling is not None:
                schema["$schema"] = spelling
            selected = registered.get(key) if key is not None else None
            warn_expected = kind in ("unknown-uri", "non-uri")
            # sanity of the own table itself
            if key is not None and own_table(spelling, registered) is not selected:
                raise AssertionError("own table inconsistent")
            case = {"history": history, "schema": schema, "instance": inst, "spelling_kind": kind}
            rec.count("cases")
            rec.count("spelling:" + kind)
            # how many drafts disagree on this pair (non-triviality)
            outs = {d: expected_outcome(impl.CLS[d], schema, inst)[0] for d in impl.DRAFTS}
            rec.case([history, schema, inst], nontrivial=len(set(outs.values())) > 1)
            # --- validator_for
            with warnings.catch_warnings(record=True) as w:
                warnings.simplefilter("always")
                got = validators.validator_for(schema)
            dep = [x for x in w if issubclass(x.category, DeprecationWarning)]
            rec.count("validator_for_checked")
            want_cls = selected if selected is not None else latest
            if got is not want_cls:
                rec.violation("validator_for", case, "validator_for selects %s, own table says %s" % (got.__name__, want_cls.__name__))
                continue
            rec.count("warnings_checked")
            if warn_expected and not dep:
                rec.violation("missing-deprecation-warning", case, "unrecognised $schema %r selected the latest draft without a DeprecationWarning" % spelling)
            if not warn_expected and dep:
                rec.violation("unexpected-warning", case, "DeprecationWarning for $schema %r" % (spelling,))
            # default argument: used only when $schema is missing
            with warnings.catch_warnings():
                warnings.simplefilter("ignore")
                got_d = validators.validator_for(schema, default=impl.CLS[3])
            want_d = selected if selected is not None else (impl.CLS[3] if kind == "missing" else latest)
            if got_d is not want_d:
                rec.violation("validator_for-default", case, "with default=Draft3Validator selects %s, expected %s" % (got_d.__name__, want_d.__name__))
            # --- the same schema held in a mapping that is no dict (a read-only view, a chain of layers, a UserDict): what it
            #     declares is what it declares
            if rng.random() < 0.3:
                import collections
                import types as _types
                for label, mk in (("MappingProxyType", lambda: _types.MappingProxyType(dict(schema))), ("ChainMap", lambda: collections.ChainMap(dict(schema))),
                                  ("ChainMap(layered)", lambda: collections.ChainMap({k: v for k, v in schema.items() if k == "$schema"},
                                                                                     {k: v for k, v in schema.items() if k != "$schema"})),
                                  ("UserDict", lambda: collections.UserDict(schema))):
                    rec.count("non_dict_mapping_schemas")
                    try:
                        with warnings.catch_warnings(record=True) as w3:
                            warnings.simplefilter("always")
                            g1 = validators.validator_for(mk())
                            g2 = validators.validator_for(mk(), default=impl.CLS[3])
                    except Exception as e:
                        rec.violation("validator_for-raised", dict(case, schema_class=label), "%s: %s" % (type(e).__name__, str(e)[:100]))
                        break
                    dep3 = [x for x in w3 if issubclass(x.category, DeprecationWarning)]
                    if g1 is not want_cls or g2 is not want_d or bool(dep3) != warn_expected:
                        rec.violation("validator_for-on-mapping", dict(case, schema_class=label),
                                      "the schema held in a %s: validator_for -> %s (a dict: %s), with default=Draft3Validator -> %s (a dict: %s), %d deprecation warning(s)" % (
                                          label, g1.__name__, want_cls.__name__, g2.__name__, want_d.__name__, len(dep3)))
                        break
            # --- a schema without $schema held in a dict subclass that answers for absent members (defaultdict,
            #     Counter, an auto-vivifying tree): asking it which draft it declares must neither invent a
            #     declaration nor write one into it
            if kind == "missing" and rng.random() < 0.5:
                import collections
                for label, factory in (("defaultdict(dict)", lambda: collections.defaultdict(dict)), ("defaultdict(str)", lambda: collections.defaultdict(str)),
                                       ("defaultdict(int)", lambda: collections.defaultdict(int)), ("defaultdict(list)", lambda: collections.defaultdict(list)),
                                       ("Counter", collections.Counter), ("OrderedDict", collections.OrderedDict)):
                    sch = factory()
                    sch.update(schema)
                    keys0 = list(sch)
                    rec.count("missing_dollar_schema_in_dict_subclass")
                    try:
                        with warnings.catch_warnings(record=True) as w2:
                            warnings.simplefilter("always")
                            g1 = validators.validator_for(sch)
                            g2 = validators.validator_for(sch, default=impl.CLS[3])
                    except Exception as e:
                        rec.violation("validator_for-raised", dict(case, schema_class=label), "%s: %s" % (type(e).__name__, str(e)[:100]))
                        break
                    if g1 is not latest or g2 is not impl.CLS[3] or [x for x in w2 if issubclass(x.category, DeprecationWarning)] or list(sch) != keys0:
                        rec.violation("validator_for-on-dict-subclass", dict(case, schema_class=label),
                                      "no $schema in a %s: validator_for -> %s, with default=Draft3Validator -> %s, %d warning(s), members afterwards %r" % (
                                          label, g1.__name__, g2.__name__, len(w2), list(sch)[:6]))
                        break
            # --- jsonschema.validate behaves as the selected class
            with warnings.catch_warnings():
                warnings.simplefilter("ignore")
                have = outcome(lambda: jsonschema.validate(inst, schema, resolver=RefResolver("", schema, store=dict(STORE))))
            want = expected_outcome(want_cls, schema, inst)
            rec.count("validate_checked")
            if want != have:
                rec.violation("validate-dispatch", case, "jsonschema.validate gives %r, the selected class %s gives %r" % (have, want_cls.__name__, want))
            # --- an explicitly given class always wins
            if rng.random() < 0.25:
                other = impl.CLS[rng.choice(impl.DRAFTS)]
                with warnings.catch_warnings():
                    warnings.simplefilter("ignore")
                    have = outcome(lambda: jsonschema.validate(inst, schema, cls=other, resolver=RefResolver("", schema, store=dict(STORE))))
                want = expected_outcome(other, schema, inst)
                rec.count("explicit_cls_checked")
                if want != have:
                    rec.violation("explicit-class-does-not-win", case, "cls=%s: validate gives %r, that class gives %r" % (other.__name__, have, want))
            # --- the CLI without --validator
            local_refs_only = "doc.json" not in json.dumps(schema)
            if scratch and local_refs_only and rng.random() < (0.3 if "$ref" in json.dumps(schema) else 0.02):
                rec.count("cli_checked")
                sp = os.path.join(scratch, "s%d.json" % rng.randrange(10 ** 9))
                ip = os.path.join(scratch, "i%d.json" % rng.randrange(10 ** 9))
                with open(sp, "w") as f:
                    json.dump(schema, f)
                with open(ip, "w") as f:
                    json.dump(inst, f)
                out, err = io.StringIO(), io.StringIO()
                argv = ["-i", ip, "--error-format", "\x1e{error.message}\x1f", sp]
                # ... sometimes with a second and third instance after it (the status is about all of them)
                more = []
                if rng.random() < 0.5:
                    for j in range(rng.randrange(1, 3)):
                        inst_j = rng.choice(PAIRS)[1]
                        ipj = os.path.join(scratch, "j%d.json" % rng.randrange(10 ** 9))
                        with open(ipj, "w") as f:
                            json.dump(inst_j, f)
                        more.append((ipj, inst_j))
                        argv = ["-i", ipj] + argv if rng.random() < 0.3 else argv[:2] + ["-i", ipj] + argv[2:]
                    rec.count("cli_several_instances_checked")
                cli_cls = want_cls
                if rng.random() < 0.4:
                    # an explicitly given class always wins, in the CLI too
                    dd = rng.choice(impl.DRAFTS)
                    cli_cls = impl.CLS[dd]
                    argv = ["--validator", rng.choice(["Draft%dValidator", "jsonschema.Draft%dValidator"]) % dd] + argv
                    rec.count("cli_explicit_validator_checked")
                with warnings.catch_warnings():
                    warnings.simplefilter("ignore")
                    try:
                        code = cli.run(cli.parse_args(argv), stdout=out, stderr=err, stdin=io.StringIO(""))
                    except Exception as e:
                        code = "exc:" + type(e).__name__
                os.remove(sp)
                os.remove(ip)
                for ipj, _ in more:
                    os.remove(ipj)
                try:
                    cli_cls.check_schema(schema)
                    msgs = sorted(e.message for x_ in [inst] + [m[1] for m in more] for e in cli_cls(schema).iter_errors(x_))
                except X.SchemaError as e:
                    msgs = [e.message]
                except Exception:
                    msgs = None       # the selected class itself cannot validate this (e.g. unresolvable under its id rules)
                if msgs is not None:
                    got_msgs = sorted(m.split("\x1f")[0] for m in err.getvalue().split("\x1e")[1:])
                    if got_msgs != msgs or (code == 0) != (not msgs):
                        rec.violation("cli-dispatch", case, "CLI (exit %r) reports %r, the selected class %s reports %r" % (code, got_msgs[:2], cli_cls.__name__, msgs[:2]))


def run_history(rec, ops, seed, scratch):
    impl.quiet()
    rng = random.Random(seed)
    registered = {IDS[d]: impl.CLS[d] for d in impl.DRAFTS}
    history = []
    # M confirms that the pairs really distinguish the drafts (so that dispatch is observable)
    distinguished = set()
    confirmed = 0
    for frag, inst in PAIRS:
        verdicts = {}
        for d in impl.DRAFTS:
            try:
                ok = impl.accepts(d, frag)
            except Exception:
                ok = False
            if not ok:
                verdicts[d] = "schema-rejected"
                continue
            try:
                verdicts[d] = M.Model(d, frag, store=STORE).valid(inst)
            except M.OutOfDomain:
                verdicts[d] = "ood"
        for a in impl.DRAFTS:
            for b in impl.DRAFTS:
                if a < b and verdicts[a] != verdicts[b] and "ood" not in (verdicts[a], verdicts[b]):
                    distinguished.add((a, b))
                    confirmed += 1
    rec.counters["distinguished_pairs"] = max(rec.counters.get("distinguished_pairs", 0), len(distinguished))
    rec.counters["model_confirms_disagreement"] = max(rec.counters.get("model_confirms_disagreement", 0), confirmed)
    new_ids = ["http://vf.example/meta/%d/%d/schema" % (seed, n) for n in range(len(ops))]
    check_dispatch(rec, rng, registered, list(history), scratch, future=new_ids)
    if ops:
        rec.count("histories_with_registrations")
    for n, op in enumerate(ops):
        base = impl.CLS[op["base"]]
        meta = dict(base.META_SCHEMA)
        idk = "id" if "id" in meta else "$id"
        new_id = new_ids[n]
        meta[idk] = new_id + ("#" if op["hash"] else "")
        with warnings.catch_warnings():
            warnings.simplefilter("ignore")
            # a later registration may reuse a version NAME that is already taken: it is still selectable by its own id
            vname = "vf-%d-%d" % (seed, n) if not op.get("reuse_name") else "vf-%d-shared" % seed
            # the version is any identifier the caller likes: also an empty or blank one, or one that reads like a falsy value
            odd = op.get("odd_name")
            if odd is not None:
                vname = odd
                rec.count("registrations_under_odd_version_names")
            if op["how"] == "create_version":
                C = validators.create(meta_schema=meta, validators=base.VALIDATORS, version=vname,
                                      type_checker=base.TYPE_CHECKER, id_of=base.ID_OF)
            elif op["how"] == "extend_version":
                # an unregistered class with a metaschema of its own, then a VERSIONED extension of it: the extension is what
                # becomes selectable by that metaschema's id
                parent_ = validators.create(meta_schema=meta, validators=base.VALIDATORS, type_checker=base.TYPE_CHECKER, id_of=base.ID_OF)
                C = validators.extend(parent_, validators={"vf-marker-%d" % n: (lambda validator, value, instance, schema: iter(()))}, version=vname)
                rec.count("registrations_through_versioned_extend")
            elif op["how"] == "extend_then_replace_metaschema":
                # the documented way to a dialect: extend() an existing class, give the result a metaschema of its own,
                # register it - under ITS metaschema's id, the parent's registration staying what it was
                C = validators.extend(base)
                C.META_SCHEMA = meta
                C = validators.validates(vname)(C)
                rec.count("registrations_after_replacing_the_metaschema")
            elif op["how"] == "subclass_overriding_metaschema":
                C = type("VfDialect%d" % n, (base,), {"META_SCHEMA": meta})
                C = validators.validates(vname)(C)
                rec.count("registrations_after_replacing_the_metaschema")
            else:
                C = validators.create(meta_schema=meta, validators=base.VALIDATORS, type_checker=base.TYPE_CHECKER, id_of=base.ID_OF)
                C = validators.validates(vname)(C)
        registered[new_id] = C
        history.append(op)
        rec.count("registrations")
        check_dispatch(rec, rng, registered, list(history), scratch if n == len(ops) - 1 else None, future=new_ids[n + 1:])


def child(tier, seed, shard, nshards, ops, hseed):
    from vf.ctx import Ctx
    c = Ctx("C20", tier, seed, shard, nshards)
    scratch = tempfile.mkdtemp(prefix="vf_c20_")
    try:
        run_history(c, ops, hseed, scratch)
    finally:
        shutil.rmtree(scratch, ignore_errors=True)
    return c.result()


def run(ctx):
    from vf.props.c18 import fork_run
    rng = ctx.rng
    for i in range(ctx.scale(8, 200)):
        ops = [{"base": rng.choice(impl.DRAFTS), "how": rng.choice(["create_version", "validates", "extend_then_replace_metaschema", "subclass_overriding_metaschema", "extend_version"]), "hash": rng.random() < 0.5,
                "reuse_name": rng.random() < 0.4, "odd_name": rng.choice([None, None, "", " ", "0", "False", "none", "draft vf", "\u00fc", "7"])}
               for _ in range(rng.choice([0, 1, 2, 3, 5]))]
        hseed = rng.randrange(10 ** 6)
        st, res = fork_run(lambda: child(ctx.tier, ctx.seed, ctx.shard, ctx.nshards, ops, hseed))
        if st != "ok":
            ctx.count("child_failed")
            ctx.notes.setdefault("child_errors", []).append(str(res)[-600:])
            continue
        ctx.evaluations += res["evaluations"]
        for k, v in res["counters"].items():
            if k in ("distinguished_pairs", "model_confirms_disagreement"):
                ctx.counters[k] = max(ctx.counters.get(k, 0), v) if ctx.shard == 0 else ctx.counters.get(k, 0)
            else:
                ctx.counters[k] += v
        ctx.hashes.update(res["hashes"])
        for v in res["violations"]:
            ctx.violation(v["kind"], v["case"], v["detail"], mech=v["mech"])
        if i % 5 == 0:
            ctx.sample({"registrations": ops, "example_pair": {"schema": dict(PAIRS[i % 20][0], **{"$schema": IDS[4] + "#"}) if isinstance(PAIRS[i % 20][0], dict) else PAIRS[i % 20][0],
                                                              "instance": PAIRS[i % 20][1]}})


def replay(ctx, rec):
    c = rec["case"]
    from vf.props.c18 import fork_run
    st, res = fork_run(lambda: child(ctx.tier, ctx.seed, 0, 1, c.get("history", []), 1))
    if st == "ok":
        for v in res["violations"]:
            ctx.violation(v["kind"], v["case"], v["detail"], mech=v["mech"])
