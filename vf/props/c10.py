"""C10 - unknown, annotation and other-draft keywords never affect validation.

Monitor: metamorphic (keyword insertion).  errors(S) and errors(S') must be
the same multiset (messages dropped: `not`, `oneOf`, draft-3 `type`/`disallow`
embed schema reprs), S' = S with foreign keywords inserted at random
subschema positions and next to $ref.  The per-draft foreign sets are the
complement of each draft's vocabulary, written down from the specifications.
"""
import random

from jsonschema import RefResolver
from jsonschema import exceptions as X

from vf import impl
from vf.gen import values as V
from vf.gen.instance import InstGen
from vf.gen.mutate import get_at, set_at
from vf.gen.refs import ref_positions, transform_local
from vf.gen.schema import SchemaGen, walk_subschemas
from vf.gen.schema import VOCAB as VOCAB_D
from vf.obs.fingerprint import fp, fps

ID = "C10"
LEVEL = "exploration"
RULE = ("grammar schemas (ref-free and with local references) x 1-4 insertions of foreign keywords (annotations, other "
        "drafts' keywords, 2019-09/2020-12 names, random names) with arbitrary and would-fail values at random "
        "subschema positions (depth 0-3) and next to $ref (there: any keyword at all), x schema-directed instances, "
        "four drafts; plus the base-URI clause: the other drafts' id keyword above relative references with store "
        "documents of opposite verdict at both candidate URLs.  A case is (draft, S, S', instance); non-trivial when "
        "errors(S) is non-empty or an insertion is a would-fail value; distinct by canonical JSON.")
ASSUMPTIONS = ["foreign sets from the specifications (vf/props/c10.py FOREIGN), not from the implementation's tables",
               "names a sibling consults are not foreign: `required` in draft 3, then/else in draft 7, boolean exclusive* in drafts 3/4",
               "`name` is not used as a random unknown name: draft-3 type unions use it for message text (documented)"]
REPORT_COUNTERS = ["cases", "insertions", "insertions_depth2plus", "would_fail_values", "next_to_ref", "base_uri_cases",
                   "cases_with_errors", "foreign_names_used"]
TRIPWIRE_EXPECTED = ("urlopen",)

ANNOTATIONS = ["title", "description", "default", "examples", "$comment", "definitions", "readOnly", "writeOnly", "deprecated"]
LATER = ["$defs", "$anchor", "$recursiveRef", "$recursiveAnchor", "$dynamicRef", "$dynamicAnchor", "$vocabulary",
         "dependentRequired", "dependentSchemas", "unevaluatedProperties", "unevaluatedItems", "prefixItems",
         "minContains", "maxContains"]
RANDOM_NAMES = ["x-foo", "", "Type", "TYPE", "properties ", "$Ref", "ref", "minimum2", "max_length", "nullable",
                "discriminator", "é", "enum_"]
OTHER = {
    3: ["allOf", "anyOf", "oneOf", "not", "multipleOf", "minProperties", "maxProperties", "const", "contains",
        "propertyNames", "if", "then", "else", "$id", "contentMediaType", "contentEncoding"],
    4: ["const", "contains", "propertyNames", "if", "then", "else", "$id", "extends", "disallow", "divisibleBy",
        "contentMediaType", "contentEncoding"],
    6: ["if", "then", "else", "id", "extends", "disallow", "divisibleBy", "contentMediaType", "contentEncoding"],
    7: ["id", "extends", "disallow", "divisibleBy"],
}
FOREIGN = {d: ANNOTATIONS + LATER + RANDOM_NAMES + OTHER[d] for d in (3, 4, 6, 7)}

WOULD_FAIL = {
    "const": lambda rng: "__never__", "not": lambda rng: {}, "minProperties": lambda rng: 99, "maxProperties": lambda rng: 0,
    "allOf": lambda rng: [{"type": "null"}, {"type": "string"}], "anyOf": lambda rng: [{"enum": ["__never__"]}],
    "oneOf": lambda rng: [{}, {}], "multipleOf": lambda rng: 10 ** 9 + 7, "divisibleBy": lambda rng: 10 ** 9 + 7,
    "contains": lambda rng: {"enum": ["__never__"]}, "propertyNames": lambda rng: {"maxLength": 0, "minLength": 5},
    "if": lambda rng: {}, "then": lambda rng: {"enum": ["__never__"]}, "else": lambda rng: {"enum": ["__never__"]},
    "extends": lambda rng: [{"type": "null"}, {"type": "string"}], "disallow": lambda rng: ["any"],
    "dependentRequired": lambda rng: {"a": ["__never__"], "b": ["__never__"], "": ["__never__"]},
    "dependentSchemas": lambda rng: {"a": {"type": "null"}}, "unevaluatedProperties": lambda rng: {"type": "null"},
    "unevaluatedItems": lambda rng: {"type": "null"}, "prefixItems": lambda rng: [{"enum": ["__never__"]}],
    "minContains": lambda rng: 99, "maxContains": lambda rng: 0, "$defs": lambda rng: {"a": {"type": "null"}},
    "id": lambda rng: "http://other.example/dir/", "$id": lambda rng: "http://other.example/dir/",
    "$anchor": lambda rng: "a", "$recursiveRef": lambda rng: "#", "$dynamicRef": lambda rng: "#a",
    "definitions": lambda rng: {"zz": {"type": "null"}}, "default": lambda rng: "__never__",
    "nullable": lambda rng: False, "Type": lambda rng: "null", "TYPE": lambda rng: "null", "enum_": lambda rng: [],
}
# next to $ref anything at all is ignored - vocabulary keywords too
ASSERTING = [("type", "null"), ("enum", ["__never__"]), ("minimum", 10 ** 9), ("maxLength", 0), ("required", ["__never__"]),
             ("items", {"type": "null"}), ("properties", {"a": {"type": "null"}}), ("pattern", "^__never__$"),
             ("additionalProperties", False), ("maxItems", 0), ("format", "date"), ("minItems", 99)]


def shards(tier):
    return 8 if tier == "quick" else 16


def floors(tier):
    return {"cases": 20000, "insertions": 20000, "insertions_depth2plus": 1000, "would_fail_values": 8000,
            "next_to_ref": 1000, "base_uri_cases": 100, "own_id_next_to_ref": 100, "foreign_sibling_matrix_cases": 50000, "root_ref_cases": 500, "embedded_lookalike_cases": 2000, "empty_or_hash_ref_cases": 1000, "cross_document_chain_cases": 5000, "deep_foreign_value_cases": 1000, "duplicated_subschema_cases": 2000, "warnings_compared": 20000, "foreign_names_spelled_like_escaped_tokens": 1500, "cases_with_errors": 5000, "foreign_names_used": 150,
            "foreign_id_in_store_document_cases": 100, "check_schema_compared": 5000, "many_foreign_member_cases": 100, "module_validate_with_foreign_dollar_schema": 5000}


# the member names the PUBLISHED metaschema of each draft says anything about (its `properties`): a keyword outside this
# list is unconstrained by the metaschema, whatever its value (written down here, not read from the repository's files)
MENTIONED = {
    3: ["$ref", "$schema", "additionalItems", "additionalProperties", "default", "dependencies", "description", "disallow", "divisibleBy", "enum",
        "exclusiveMaximum", "exclusiveMinimum", "extends", "format", "id", "items", "maxDecimal", "maxItems", "maxLength", "maximum", "minItems",
        "minLength", "minimum", "pattern", "patternProperties", "properties", "required", "title", "type", "uniqueItems"],
    4: ["$schema", "additionalItems", "additionalProperties", "allOf", "anyOf", "default", "definitions", "dependencies", "description", "enum",
        "exclusiveMaximum", "exclusiveMinimum", "format", "id", "items", "maxItems", "maxLength", "maxProperties", "maximum", "minItems", "minLength",
        "minProperties", "minimum", "multipleOf", "not", "oneOf", "pattern", "patternProperties", "properties", "required", "title", "type",
        "uniqueItems"],
    6: ["$id", "$ref", "$schema", "additionalItems", "additionalProperties", "allOf", "anyOf", "const", "contains", "default", "definitions",
        "dependencies", "description", "enum", "examples", "exclusiveMaximum", "exclusiveMinimum", "format", "items", "maxItems", "maxLength",
        "maxProperties", "maximum", "minItems", "minLength", "minProperties", "minimum", "multipleOf", "not", "oneOf", "pattern",
        "patternProperties", "properties", "propertyNames", "required", "title", "type", "uniqueItems"],
    7: ["$comment", "$id", "$ref", "$schema", "additionalItems", "additionalProperties", "allOf", "anyOf", "const", "contains", "contentEncoding",
        "contentMediaType", "default", "definitions", "dependencies", "description", "else", "enum", "examples", "exclusiveMaximum",
        "exclusiveMinimum", "format", "if", "items", "maxItems", "maxLength", "maxProperties", "maximum", "minItems", "minLength", "minProperties",
        "minimum", "multipleOf", "not", "oneOf", "pattern", "patternProperties", "properties", "propertyNames", "readOnly", "required", "then",
        "title", "type", "uniqueItems"],
}


def gate_of(d, schema):
    try:
        impl.CLS[d].check_schema(schema)
        return "accepted"
    except X.SchemaError as e:
        return "SchemaError"
    except Exception as e:
        return "exc:" + type(e).__name__


def errors_of(d, schema, inst, resolver=None):
    cls = impl.CLS[d]
    try:
        v = cls(schema, resolver=resolver) if resolver is not None else cls(schema)
        errs = list(v.iter_errors(inst))
        # ... and the one error jsonschema.validate() would raise (best_match): a reported error as well
        best = X.best_match(iter(errs))
        first = None
        for e in v.iter_errors(inst):       # what validate() raises: the first error, in the order they are produced
            first = fp(e, message=False)
            break
        return "ok", [fps(errs, message=False), None if best is None else fp(best, message=False), [fp(e, message=False) for e in errs], first,
                      v.is_valid(inst)]
    except X.RefResolutionError as e:
        return "RefResolutionError", None
    except X.UnknownType:
        return "UnknownType", None
    except Exception as e:
        return "exc:" + type(e).__name__, None


def with_key(rng, node, name, val):
    """A copy of the object `node` with the member name: val at a random position; the members it already has keep
    their relative order (the order in which an implementation reports - and ranks - errors may follow it)."""
    items = list(node.items())
    k = rng.randrange(0, len(items) + 1)
    return dict(items[:k] + [(name, val)] + items[k:])


def insert(rng, d, S, used):
    """Returns (S', [(path, name, would_fail, next_to_ref)])."""
    subs = [(p, s) for p, s in walk_subschemas(d, S) if isinstance(s, dict)]
    refs = set(ref_positions(S))
    log = []
    cur = S
    for _ in range(rng.randrange(1, 5)):
        path, sub = rng.choice(subs)
        try:
            node = get_at(cur, list(path))
        except (KeyError, IndexError, TypeError):
            continue
        if not isinstance(node, dict):
            continue
        is_ref = isinstance(node.get("$ref"), str)
        if is_ref and rng.random() < 0.5:
            name, val = rng.choice(ASSERTING)
            wf = True
        else:
            name = rng.choice(FOREIGN[d])
            if name in WOULD_FAIL and rng.random() < 0.7:
                val = WOULD_FAIL[name](rng)
                wf = True
            else:
                val = V.value(rng, 2)
                wf = False
        if name in node:
            continue
        # names the parent keyword consults are not foreign at this position
        if d == 3 and name == "required":
            continue
        new = with_key(rng, node, name, val)
        cur = set_at(cur, list(path), new)
        used.add((d, name))
        log.append({"path": list(path), "name": name, "would_fail": wf, "next_to_ref": is_ref, "depth": _depth(d, path)})
    return cur, log


def _depth(d, path):
    # number of schema positions crossed
    return sum(1 for p in path if isinstance(p, str) and p in ("properties", "items", "allOf", "anyOf", "oneOf", "not",
                                                                  "extends", "dependencies", "patternProperties",
                                                                  "additionalProperties", "additionalItems", "contains",
                                                                  "propertyNames", "if", "then", "else", "type", "disallow"))


OWN_ID_MECH = "own-id-keyword-next-to-ref-changes-base"


def own_id_next_to_ref(ctx, d, rng, S, insts):
    """"Any keyword at all placed next to a $ref" includes the draft's own id
    keyword.  Done as a separate single-insertion case so that the known
    finding's classifier (decided by construction: the only insertion is the
    own id keyword into a reference object) cannot mask anything else."""
    refs = ref_positions(S)
    if not refs:
        return
    path = rng.choice(refs)
    node = get_at(S, list(path))
    own = impl.IDKW[d]
    if own in node or not path:
        return
    new = dict(node)
    new[own] = rng.choice(["http://other.example/dir/", "sub/", "x.json", "http://other.example/a.json#"])
    S2 = set_at(S, list(path), new)
    log = [{"path": list(path), "name": own, "would_fail": True, "next_to_ref": True, "depth": _depth(d, path)}]
    ctx.count("own_id_next_to_ref")
    for inst in insts:
        compare(ctx, d, S, S2, log, inst, mech=OWN_ID_MECH)


def warnings_of(d, schema, inst, resolver=None):
    """What the warnings machinery is told while the schema is used (whatever the process's filters do with it: a program run
    with -W error turns each of these into an exception)."""
    import warnings
    cls = impl.CLS[d]
    with warnings.catch_warnings(record=True) as w:
        warnings.simplefilter("always")
        try:
            v = cls(schema, resolver=resolver) if resolver is not None else cls(schema)
            list(v.iter_errors(inst))
            v.is_valid(inst)
        except Exception:
            pass
    return sorted({(x.category.__name__, str(x.message)[:100]) for x in w})


def compare(ctx, d, S, S2, log, inst, resolver_factory=None, mech=None):
    r0 = resolver_factory(S) if resolver_factory else None
    r1 = resolver_factory(S2) if resolver_factory else None
    st0, f0 = errors_of(d, S, inst, r0)
    st1, f1 = errors_of(d, S2, inst, r1)
    if ctx.counters.get("cases", 0) % 4 == 0 and not st0.startswith("exc:"):
        w0 = warnings_of(d, S, inst, resolver_factory(S) if resolver_factory else None)
        w1 = warnings_of(d, S2, inst, resolver_factory(S2) if resolver_factory else None)
        ctx.count("warnings_compared")
        if [x for x in w1 if x not in w0]:
            ctx.violation("warning-added", {"draft": d, "schema": S, "schema_with_insertions": S2, "insertions": log, "instance": inst},
                          "with the insertions the library warns %r (without: %r)" % ([x for x in w1 if x not in w0][:2], w0[:2]), mech=mech)
            return
    if st0.startswith("exc:"):
        ctx.count("skipped_exception_delegated_to_C03")
        return
    case = {"draft": d, "schema": S, "schema_with_insertions": S2, "insertions": log, "instance": inst}
    wf = any(l["would_fail"] for l in log)
    ctx.count("cases")
    ctx.case([d, S, S2, inst], nontrivial=bool(f0 and f0[0]) or wf)
    if f0 and f0[0]:
        ctx.count("cases_with_errors")
    if st0 != st1:
        ctx.violation("outcome-changed", case, "without insertions: %s, with: %s" % (st0, st1), mech=mech)
    elif f0[0] != f1[0]:
        ctx.violation("errors-changed", case, "errors differ: %r vs %r" % (f0[0][:2], f1[0][:2]), mech=mech)
    elif f0[1] != f1[1]:
        ctx.violation("best-match-changed", case, "same errors, but best_match (what validate() raises) is %r without and %r with the insertions" % (
            f0[1][:4], f1[1][:4]), mech=mech)
    elif f0[2] != f1[2] or f0[3] != f1[3]:
        ctx.violation("error-order-changed", case, "same errors, produced in another order (first: %r without, %r with the insertions; the members the "
                      "schema already had keep their relative order)" % (f0[3] and f0[3][:4], f1[3] and f1[3][:4]), mech=mech)
    elif f0[4] != f1[4] or f0[4] != (not f0[0]):
        ctx.violation("is_valid-changed", case, "is_valid says %s without and %s with the insertions (iter_errors: %d error(s))" % (f0[4], f1[4], len(f0[0])), mech=mech)
    if f0 and f0[0] and any(e[4] for e in f0[0]):
        ctx.count("cases_with_context_errors")
    # the module-level entry point with this class given explicitly, on a schema whose $schema names ANOTHER draft: the
    # explicit class decides what is a keyword (same tag in both schemas, so only the insertions differ)
    if resolver_factory is None and isinstance(S, dict) and isinstance(S2, dict) and "$schema" not in S and ctx.counters.get("cases", 0) % 5 == 1:
        import jsonschema
        tag_ = impl.META_ID[[o for o in impl.DRAFTS if o != d][ctx.counters.get("cases", 0) % 3]]

        def mv(schema):
            try:
                jsonschema.validate(inst, dict(schema, **{"$schema": tag_}), cls=impl.CLS[d])
                return ("valid",)
            except X.SchemaError as e:
                return ("SchemaError",)
            except X.ValidationError as e:
                return ("ValidationError", fp(e, message=False))
            except (X.RefResolutionError, X.UnknownType) as e:
                return (type(e).__name__,)
            except Exception as e:
                return ("exc:" + type(e).__name__,)
        m0 = mv(S)
        if m0[0] in ("valid", "ValidationError"):
            ctx.count("module_validate_with_foreign_dollar_schema")
            m1 = mv(S2)
            if m1 != m0 and m1[0] != "SchemaError":
                ctx.violation("errors-changed", dict(case, entry="jsonschema.validate(cls=Draft%d..., $schema=%s)" % (d, tag_)),
                              "module-level validate with the class given explicitly: %r without, %r with the insertions" % (m0, m1), mech=mech)
    # a keyword the draft's metaschema does not mention is no business of check_schema / validate() either
    if log and all(l.get("name") not in MENTIONED[d] and not l.get("next_to_ref") for l in log) and ctx.counters.get("cases", 0) % 4 == 0:
        g0 = gate_of(d, S)
        if g0 == "accepted":
            ctx.count("check_schema_compared")
            g1 = gate_of(d, S2)
            if g1 != g0:
                ctx.violation("check_schema-changed", case, "check_schema accepts the schema, but with %r (which the draft-%d metaschema does not mention) "
                              "inserted: %s" % ([l["name"] for l in log], d, g1), mech=mech)


def base_uri_cases(ctx, d, rng):
    """The other drafts' id keyword must not establish a base URI."""
    own = impl.IDKW[d]
    foreign = "$id" if own == "id" else "id"
    store = {"http://base.example/doc.json": {"type": "integer"}, "http://other.example/dir/doc.json": {"type": "string"},
             "http://base.example/dir/doc.json": {"type": "array"}}

    def rf(schema):
        return RefResolver.from_schema(schema, id_of=impl.CLS[d].ID_OF, store=store)
    holder = "extends" if d == 3 else "allOf"
    shapes = [
        ({own: "http://base.example/root.json", "items": {"$ref": "doc.json"}},
         {own: "http://base.example/root.json", foreign: "http://other.example/dir/", "items": {"$ref": "doc.json"}}),
        ({own: "http://base.example/root.json", "items": {holder: [{"$ref": "doc.json"}]}},
         {own: "http://base.example/root.json", "items": {foreign: "http://other.example/dir/", holder: [{"$ref": "doc.json"}]}}),
        ({own: "http://base.example/root.json", "properties": {"a": {"items": {"$ref": "doc.json"}}}},
         {own: "http://base.example/root.json", "properties": {"a": {foreign: "dir/", "items": {"$ref": "doc.json"}}}}),
        ({own: "http://base.example/root.json", "properties": {"a": {"$ref": "doc.json"}}},
         {own: "http://base.example/root.json", "properties": {"a": {"$ref": "doc.json", foreign: "http://other.example/dir/"}}}),
    ]
    for S, S2 in shapes:
        for inst in ([1, "a", [2]], {"a": [1, "x"]}, {"a": 1}, {"a": "s"}, [[1]], 5, "z"):
            ctx.count("base_uri_cases")
            compare(ctx, d, S, S2, [{"path": [], "name": foreign, "would_fail": True, "next_to_ref": False, "depth": 0}],
                    inst, resolver_factory=rf)


def foreign_id_in_store_documents(ctx, d):
    """The other drafts' id keyword inside a document handed over in `store=` (or served by a handler) is data, too: it
    neither makes the document answer for that URL nor shadows the document that does."""
    own = impl.IDKW[d]
    foreign = "$id" if own == "id" else "id"
    U_A, U_B, U_C = "http://store.example/lib/a.json", "http://store.example/lib/b.json", "vf://handler.example/lib/c.json"
    A, B, Cdoc = {"type": "integer"}, {"type": "string"}, {"type": "array"}
    S = {"properties": {"a": {"$ref": U_A}, "b": {"$ref": U_B}, "c": {"$ref": U_C}, "b2": {"items": {"$ref": U_B + "#"}}}}
    insts = [{"a": 1, "b": 1, "c": 1}, {"a": "s", "b": "s", "c": "s"}, {"a": [], "b": [], "c": [], "b2": [1, "s"]}, {"b": 1}, {"c": 5, "b2": ["s"]}]
    plans = [("a-claims-b", {U_A: dict(A, **{foreign: U_B}), U_B: B}), ("b-first", {U_B: B, U_A: dict(A, **{foreign: U_B})}),
             ("a-claims-c", {U_A: dict(A, **{foreign: U_C}), U_B: B}), ("b-claims-a", {U_A: A, U_B: dict(B, **{foreign: U_A})}),
             ("nested-claim", {U_A: {"type": "integer", "definitions": {"x": {foreign: U_B, "type": "null"}}}, U_B: B}),
             ("a-claims-b-with-fragment", {U_A: dict(A, **{foreign: U_B + "#"}), U_B: B})]
    plain = {U_A: A, U_B: B}

    def rf(store, claim_in_handler=False):
        def handler(url):
            return dict(Cdoc, **{foreign: U_B}) if claim_in_handler else Cdoc
        return RefResolver.from_schema(S, id_of=impl.CLS[d].ID_OF, store=dict(store), handlers={"vf": handler})
    for name, store in plans + [("handler-document-claims-b", plain)]:
        for inst in insts:
            ctx.count("foreign_id_in_store_document_cases")
            st0, f0 = errors_of(d, S, inst, rf(plain))
            st1, f1 = errors_of(d, S, inst, rf(store, claim_in_handler=(name == "handler-document-claims-b")))
            case = {"draft": d, "schema": S, "store": store, "plan": name, "instance": inst,
                    "insertions": [{"name": foreign, "would_fail": True, "next_to_ref": False, "depth": 0, "path": ["<store document>"]}]}
            ctx.case([d, "store-doc-foreign-id", name, inst], nontrivial=True)
            if st0 != st1 or f0 != f1:
                ctx.violation("errors-changed", case, "adding %r to a stored document changed the outcome: %r -> %r" % (
                    foreign, (st0, f0 and f0[0][:2]), (st1, f1 and f1[0][:2])))


def many_foreign_members(ctx, d, rng, n=12):
    """One schema object carrying more foreign members (40-70) than the draft has keywords."""
    g = SchemaGen(rng, d, maxdepth=1)
    for _ in range(n):
        kws = rng.sample([k for k in VOCAB_D[d] if k not in ("$ref", "format")], 4)
        S = {}
        for k in kws:
            S.update(g.keyword_schema(k))
        items = list(S.items())
        rng.shuffle(items)
        S = dict(items)
        names = ["x-vf-%d" % i for i in range(rng.randrange(40, 70))] + rng.sample(RANDOM_NAMES + LATER, 5)
        S2 = S
        log = []
        where = rng.choice(["root", "nested"])
        for nm in names:
            if nm in S2:
                continue
            S2 = with_key(rng, S2, nm, V.value(rng, 1))
            log.append({"path": [], "name": nm, "would_fail": False, "next_to_ref": False, "depth": 0})
        if where == "nested":
            S, S2 = {"items": S, "properties": {"a": S}}, {"items": S2, "properties": {"a": S2}}
        try:
            if not impl.accepts(d, S):
                continue
        except Exception:
            continue
        ig = InstGen(rng, S)
        for inst in ig.batch(4):
            ctx.count("many_foreign_member_cases")
            compare(ctx, d, S, S2, log[:3] + [{"name": "... %d foreign members in all" % len(log), "would_fail": False}], inst)


def embedded_lookalikes(ctx, d, rng):
    """The value of a foreign keyword is data: even when it contains objects that carry the id (either spelling) of a
    document the schema refers to, it must never become the target of a reference."""
    from jsonschema import RefResolver
    U_H = "vf://handler.example/lib/ext.json"
    U_S = "http://store.example/lib/ext.json"
    ext = {"type": "integer"}
    fake = {"type": "string"}
    hold = "extends" if d == 3 else "allOf"

    def rf(schema):
        return RefResolver.from_schema(schema, id_of=impl.CLS[d].ID_OF, store={U_S: ext}, handlers={"vf": lambda url: ext})
    for U_ in (U_H, U_S):
        S = {"properties": {"a": {"$ref": U_}, "b": {hold: [{"$ref": U_ + "#"}]}}}
        for idk in ("id", "$id"):
            for name in ("x-note", "examples", "default", "definitions2", "$defs", "title", "const" if d <= 4 else "x-const", "dependentSchemas"):
                for val in ({idk: U_, **fake}, [{idk: U_, **fake}], {"k": {idk: U_, **fake}}, {idk: U_ + "#", **fake}):
                    for S2 in (dict(S, **{name: val}), {"properties": dict(S["properties"], c={name: val})},
                               {"properties": {"a": {"$ref": U_, name: val}, "b": S["properties"]["b"]}}):
                        log = [{"path": [], "name": name, "would_fail": True, "next_to_ref": False, "depth": 0}]
                        for inst in ({"a": 1, "b": 2}, {"a": "s", "b": "t"}, {"a": 1.5}):
                            ctx.count("embedded_lookalike_cases")
                            compare(ctx, d, S, S2, log, inst, resolver_factory=rf)


def root_ref_cases(ctx, d, rng):
    """A reference object standing at the root, with any keyword at all next to it."""
    for ref, defs in (("#/definitions/a", {"a": {"type": "integer"}}), ("#/definitions/a", {"a": {"type": "object", "properties": {"p": {"$ref": "#"}}}})):
        S = {"$ref": ref, "definitions": defs}
        for name, val in ASSERTING + [(n, WOULD_FAIL[n](rng)) for n in ("const", "not", "minProperties", "contains", "if") if n in FOREIGN[d]]:
            if d == 3 and name == "required":
                continue
            for S2 in (dict(S, **{name: val}), dict({name: val}, **S)):
                log = [{"path": [], "name": name, "would_fail": True, "next_to_ref": True, "depth": 0}]
                for inst in (1, "s", {"p": 1}, {"p": {"p": "x"}}, [1], None):
                    ctx.count("next_to_ref")
                    ctx.count("root_ref_cases")
                    compare(ctx, d, S, S2, log, inst)


def _deep_value(depth, shape):
    v = "bottom"
    for k in range(depth):
        v = [v] if shape == "list" or (shape == "mixed" and k % 2) else {"k": v}
    return v


def deep_foreign_one(ctx, d, name, depth, shape, place, inst):
    """The value of a member the draft does not define is never looked into, however large: one nested hundreds or
    thousands of levels deep (plain JSON all the same) changes nothing - evaluated under the interpreter's default
    recursion limit, through the class, is_valid and the module-level function."""
    import sys
    import jsonschema
    val = _deep_value(depth, shape)
    if name == "examples":
        val = [val]
    inner = {"type": "integer", "minimum": 3}
    base = {"properties": {"a": inner, "r": {"$ref": "#/definitions/t"}}, "definitions": {"t": {"type": "string"}}, "required": ["a"] if d != 3 else True}
    if d == 3:
        base = {"properties": {"a": dict(inner, required=True), "r": {"$ref": "#/definitions/t"}}, "definitions": {"t": {"type": "string"}}}
    S = base
    if place == "root":
        S2 = dict(base, **{name: val})
    elif place == "nested":
        S2 = dict(base, properties=dict(base["properties"], a=dict(base["properties"]["a"], **{name: val})))
    else:   # next to the reference
        S2 = dict(base, properties=dict(base["properties"], r={"$ref": "#/definitions/t", name: val}))
    case = {"draft": d, "deep_foreign": {"name": name, "depth": depth, "shape": shape, "place": place}, "instance": inst}
    ctx.case(["deep-foreign", d, name, depth, shape, place, inst])
    ctx.count("deep_foreign_value_cases")

    def observe(schema):
        out = []
        for how in ("iter_errors", "is_valid", "module validate"):
            try:
                if how == "iter_errors":
                    out.append(fps(impl.CLS[d](schema).iter_errors(inst), message=False))
                elif how == "is_valid":
                    out.append(impl.CLS[d](schema).is_valid(inst))
                else:
                    try:
                        jsonschema.validate(inst, schema, cls=impl.CLS[d])
                        out.append("valid")
                    except X.ValidationError as e:
                        out.append(fp(e, message=False))
            except Exception as e:
                out.append("exc:" + type(e).__name__)
        return out
    limit = sys.getrecursionlimit()
    sys.setrecursionlimit(1000)
    try:
        o0, o1 = observe(S), observe(S2)
    finally:
        sys.setrecursionlimit(limit)
    if o0 != o1:
        k = [i for i in range(3) if o0[i] != o1[i]][0]
        ctx.violation("outcome-changed", case, "%s: %r without the member, %r with %r: <a value nested %d deep>" % (
            ("iter_errors", "is_valid", "module validate")[k], o0[k] if not isinstance(o0[k], list) else o0[k][:2], o1[k] if not isinstance(o1[k], list) else o1[k][:2], name, depth))


def deep_foreign_values(ctx, d):
    n = 0
    # (names whose value the draft's metaschema leaves open: validate() checks the schema first)
    for name in ("default", "examples", "x-vendor-notes", "vf-unknown", "const" if d <= 4 else "divisibleBy", "definitions2"):
        for depth in (100, 480, 700, 990, 1400, 2500):
            for shape in ("list", "dict", "mixed"):
                for place in ("root", "nested", "next-to-ref"):
                    n += 1
                    inst = [{"a": 1, "r": 5}, {"r": "s"}, {"a": 7, "r": "s"}][n % 3]
                    deep_foreign_one(ctx, d, name, depth, shape, place, inst)


def escaped_spelling_names(ctx, d, rng):
    """A member the draft does not define may be NAMED anything - also the escaped spelling ('x~1limits', 'a~0b', 'p%25q') of a
    pointer token some reference in the schema uses for another member ('x/limits', 'a~b', 'p%q')."""
    pairs = [("x/limits", "x~1limits", "x~1limits"), ("a~b", "a~0b", "a~0b"), ("p%q", "p%25q", "p%25q"), ("s t", "s%20t", "s%20t"), ("~1", "~01", "~01"),
             ("m/n~o", "m~1n~0o", "m~1n~0o"), ("q/r", "q~1r", "q%7E1r")]
    for real, spelled, foreign in pairs:
        for val in ({}, {"type": "null"}, {"enum": []}, 5, [], "s") + ((False, True) if d >= 6 else ()):
            for place in ("root", "nested"):
                target = {"type": "integer", "minimum": 3}
                if place == "root":
                    S = {real: target, "properties": {"a": {"$ref": "#/" + spelled}, "b": {"items": {"$ref": "#/" + spelled}}}}
                    S2 = with_key(rng, S, foreign, val)
                    path = []
                else:
                    inner = {real: target, "type": "object"}
                    S = {"properties": {"n": inner, "a": {"$ref": "#/properties/n/" + spelled}}}
                    S2 = {"properties": {"n": with_key(rng, inner, foreign, val), "a": {"$ref": "#/properties/n/" + spelled}}}
                    path = ["properties", "n"]
                if foreign in S if place == "root" else foreign in inner:
                    continue
                log = [{"path": path, "name": foreign, "would_fail": True, "next_to_ref": False, "depth": len(path)}]
                for inst in ({"a": 1}, {"a": 5}, {"a": "s"}, {"a": None, "b": [1, 7, None]}, {"b": ["s"]}, {"n": {}, "a": 2}):
                    ctx.count("foreign_names_spelled_like_escaped_tokens")
                    compare(ctx, d, S, S2, log, inst)


def duplicated_subschemas(ctx, d, rng):
    """A list-valued applicator holding the SAME subschema several times (written out twice, or the same reference twice): a
    foreign member in one of the copies changes nothing about what each copy reports."""
    kw = "extends" if d == 3 else "allOf"
    A_s = [{"type": "integer"}, {"minimum": 5, "type": "number"}, {"$ref": "#/definitions/t"}, {"properties": {"a": {"type": "string"}}}, {"items": {"type": "null"}}]
    for A in A_s:
        for name, val in (("title", "t"), ("x-vf", 1), ("$comment", "c"), ("description", {"type": "null"}), ("const" if d <= 4 else "divisibleBy", 3)):
            if "$ref" in A and d == 3 and name == "description":
                pass
            for which in (0, 1, 2):
                copies = [dict(A), dict(A), dict(A)]
                S = {kw: copies, "definitions": {"t": {"type": "string"}}}
                c2 = [dict(A), dict(A), dict(A)]
                c2[which] = with_key(rng, c2[which], name, val)
                S2 = {kw: c2, "definitions": {"t": {"type": "string"}}}
                others = [{"anyOf": copies}, {"oneOf": copies[:2]}] if d != 3 else [{"type": copies + ["null"]}]
                log = [{"path": [kw, which], "name": name, "would_fail": True, "next_to_ref": "$ref" in A, "depth": 1}]
                for inst in (1, 7, "s", {"a": 1}, [1], None, 2.5):
                    ctx.count("duplicated_subschema_cases")
                    compare(ctx, d, S, S2, log, inst)
                for O in others:
                    k2 = next(iter(O))
                    O2 = {k2: list(O[k2])}
                    O2[k2][0] = with_key(rng, dict(O2[k2][0]), name, val) if isinstance(O2[k2][0], dict) else O2[k2][0]
                    for inst in (1, "s", None):
                        ctx.count("duplicated_subschema_cases")
                        compare(ctx, d, dict(O, definitions={"t": {"type": "string"}}), dict(O2, definitions={"t": {"type": "string"}}), log, inst)


def _chain_store():
    far = "http://far.example/lib/defs.json"
    return {far: {"definitions": {"t": {"$ref": "leaf.json"}, "u": {"items": {"$ref": "leaf.json"}},
                                  "w": {"$ref": "#/definitions/t"}, "x": {"properties": {"p": {"$ref": "sub/leaf.json#/definitions/i"}}}}},
            "http://far.example/lib/leaf.json": {"type": "integer"},
            "http://far.example/lib/sub/leaf.json": {"definitions": {"i": {"type": "integer"}}},
            "http://base.example/leaf.json": {"type": "string"},
            "http://base.example/sub/leaf.json": {"definitions": {"i": {"type": "string"}}}}


def cross_document_chains(ctx, d, rng):
    """A reference into ANOTHER document whose target itself refers on, relative to ITS document - standing where the
    implementation only asks for a verdict (not, contains, if, oneOf, disallow, the root through is_valid) and elsewhere;
    any member next to the first reference changes nothing."""
    own = impl.IDKW[d]
    far = "http://far.example/lib/defs.json"
    store = _chain_store()

    def rf(schema):
        return RefResolver.from_schema(schema, id_of=impl.CLS[d].ID_OF, store=store)
    for name in ("t", "u", "w", "x"):
        for sib_name, sib_val in (("title", "t"), ("description", 5), ("x-vf", {"type": "null"}), ("type", "null"), ("enum", []), ("maxLength", 0)):
            R, R2 = {"$ref": far + "#/definitions/" + name}, {"$ref": far + "#/definitions/" + name, sib_name: sib_val}
            R3 = {sib_name: sib_val, "$ref": far + "#/definitions/" + name}
            holders = [lambda r: r, lambda r: {"items": r}, lambda r: {"properties": {"q": r}}]
            if d == 3:
                holders += [lambda r: {"disallow": [r]}, lambda r: {"type": [r, "null"]}, lambda r: {"type": ["null", r]}, lambda r: {"extends": [{"disallow": [r]}]}]
            else:
                holders += [lambda r: {"not": r}, lambda r: {"oneOf": [{"type": "null"}, r]}, lambda r: {"oneOf": [r, {"enum": [1, "a"]}]},
                            lambda r: {"anyOf": [{"not": r}, {"type": "array"}]}, lambda r: {"items": {"not": r}}]
            if d >= 6:
                holders += [lambda r: {"contains": r}, lambda r: {"propertyNames": {"not": r}}]
            if d >= 7:
                holders += [lambda r: {"if": r, "then": {"maximum": 3}, "else": {"minLength": 2}}, lambda r: {"if": {"not": r}, "then": {"type": "string"}}]
            for h in holders:
                for Ra in (R2, R3):
                    S, S2 = h(R), h(Ra)
                    if isinstance(S, dict) and "$ref" not in S:
                        S, S2 = dict(S, **{own: "http://base.example/root.json"}), dict(S2, **{own: "http://base.example/root.json"})
                    log = [{"path": [], "name": sib_name, "would_fail": True, "next_to_ref": True, "depth": 1}]
                    for inst in (1, "a", [1], ["a"], None, [[1]], {"p": 1}, {"p": "a"}, {"q": 1}, {"q": ["a"]}, 7):
                        ctx.count("next_to_ref")
                        ctx.count("cross_document_chain_cases")
                        compare(ctx, d, S, S2, log, inst, resolver_factory=rf)


def empty_ref_cases(ctx, d, rng):
    """Siblings of `$ref` are ignored whatever the reference string is - including the empty
    reference "" (same document, like "#") and "#"."""
    own = impl.IDKW[d]
    for ref in ("", "#", "#/definitions/a", "#/properties/child"):
        for with_id in (False, True):
            S = {"definitions": {"a": {"type": "object"}}, "type": "object",
                 "properties": {"child": {"$ref": ref}, "n": {"type": "integer"}}}
            if with_id:
                S[own] = "http://base.example/root.json"
            for name, val in ASSERTING:
                if d == 3 and name == "required":
                    continue
                S2 = dict(S, properties=dict(S["properties"], child={"$ref": ref, name: val}))
                S3 = dict(S, properties=dict(S["properties"], child={name: val, "$ref": ref}))
                log = [{"path": ["properties", "child"], "name": name, "would_fail": True, "next_to_ref": True, "depth": 1}]
                for inst in ({"child": {"n": 1}}, {"child": {"child": {"n": "x"}}}, {"child": 7}, {"child": {"child": 7}}, {"n": 1}):
                    ctx.count("next_to_ref")
                    ctx.count("empty_or_hash_ref_cases")
                    compare(ctx, d, S, S2, log, inst)
                    compare(ctx, d, S, S3, log, inst)


SIBLING_VALUES = [0, 0.0, False, True, 1, None, [], {}, "", "x", [0], {"a": 0}, -1]


def foreign_sibling_matrix(ctx, d, rr, used, idx0):
    """A keyword function must not read a sibling it is not defined to consult: every vocabulary keyword of the
    draft x every foreign name x a set of values (falsy ones included) in the SAME schema object, on instances
    that fail and that pass the keyword."""
    from vf.gen.schema import VOCAB
    g = SchemaGen(random.Random(4040 + d), d, maxdepth=1)
    idx = idx0
    for kw in VOCAB[d]:
        bases = [g.keyword_schema(kw) for _ in range(3)]
        for name in FOREIGN[d]:
            idx += 1
            if not ctx.mine(idx):
                continue
            for base in bases:
                if name in base or not isinstance(base, dict):
                    continue
                ig = InstGen(rr, base)
                insts = ig.batch(4)
                for val in rr.sample(SIBLING_VALUES, 5):
                    S2 = with_key(rr, base, name, val)
                    used.add((d, name))
                    log = [{"path": [], "name": name, "would_fail": False, "next_to_ref": False, "depth": 0, "sibling_of": kw}]
                    for inst in insts:
                        ctx.count("foreign_sibling_matrix_cases")
                        compare(ctx, d, base, S2, log, inst)
    return idx


def run(ctx):
    impl.quiet()
    used = set()
    rr = random.Random(1010)
    for d in impl.DRAFTS:
        if ctx.mine(d):
            base_uri_cases(ctx, d, rr)
            empty_ref_cases(ctx, d, rr)
            cross_document_chains(ctx, d, rr)
            deep_foreign_values(ctx, d)
            escaped_spelling_names(ctx, d, rr)
            duplicated_subschemas(ctx, d, rr)
            root_ref_cases(ctx, d, rr)
            embedded_lookalikes(ctx, d, rr)
            foreign_id_in_store_documents(ctx, d)
            many_foreign_members(ctx, d, rr)
    idx = 0
    for d in impl.DRAFTS:
        idx = foreign_sibling_matrix(ctx, d, rr, used, idx)
    # deterministic: every foreign name of every draft at the root and one level down, would-fail value
    for d in impl.DRAFTS:
        g = SchemaGen(random.Random(55 + d), d, maxdepth=2)
        for name in FOREIGN[d]:
            idx += 1
            base = g.schema()
            if not ctx.mine(idx) or not isinstance(base, dict):
                continue
            val = WOULD_FAIL[name](rr) if name in WOULD_FAIL else V.value(rr, 2)
            S = {"properties": {"a": base}, "items": base}
            if d == 3 and name == "required":
                continue
            for S2, path in (({**S, name: val}, []),
                             ({"properties": {"a": {**base, name: val}}, "items": base}, ["properties", "a"]),
                             ({"properties": {"a": base}, "items": {**base, name: val}}, ["items"])):
                if name in base:
                    continue
                used.add((d, name))
                ig = InstGen(rr, base)
                for x in ig.batch(3):
                    for inst in (x, {"a": x}, [x, x]):
                        ctx.count("insertions")
                        ctx.count("would_fail_values") if name in WOULD_FAIL else None
                        compare(ctx, d, S, S2, [{"path": path, "name": name, "would_fail": name in WOULD_FAIL,
                                                "next_to_ref": False, "depth": len(path) and 1}], inst)
    rng = ctx.rng
    for i in range(ctx.scale(5000, 40000)):
        d = impl.DRAFTS[i % 4]
        g = SchemaGen(rng, d, maxdepth=rng.choice([1, 2, 3]))
        S = g.schema()
        if not isinstance(S, dict):
            continue
        if rng.random() < 0.5:
            S = transform_local(rng, d, S).schema
        try:
            if not impl.accepts(d, S):
                ctx.count("schema_rejected")
                continue
        except Exception:
            continue
        S2, log = insert(rng, d, S, used)
        if not log:
            continue
        ctx.count("insertions", len(log))
        ctx.count("insertions_depth2plus", sum(1 for l in log if l["depth"] >= 2))
        ctx.count("would_fail_values", sum(1 for l in log if l["would_fail"]))
        ctx.count("next_to_ref", sum(1 for l in log if l["next_to_ref"]))
        ig = InstGen(rng, S)
        insts = ig.batch(4)
        for inst in insts:
            compare(ctx, d, S, S2, log, inst)
        if i % 3 == 0:
            own_id_next_to_ref(ctx, d, rng, S, insts[:2])
        if i % 301 == 0:
            ctx.sample({"draft": d, "schema": S, "schema_with_insertions": S2, "insertions": log})
    if ctx.shard == 0:
        ctx.count("foreign_names_used", len(used))


def replay(ctx, rec):
    impl.quiet()
    c = rec["case"]
    d = c["draft"]
    rf = None
    if "deep_foreign" in c:
        q = c["deep_foreign"]
        deep_foreign_one(ctx, d, q["name"], q["depth"], q["shape"], q["place"], c["instance"])
        return
    if "plan" in c:
        foreign_id_in_store_documents(ctx, d)      # small and deterministic: the whole cell again
        return
    if any(k.startswith("http://base.example") for k in [str(c["schema"].get(impl.IDKW[d], ""))]):
        store = {"http://base.example/doc.json": {"type": "integer"}, "http://other.example/dir/doc.json": {"type": "string"},
                 "http://base.example/dir/doc.json": {"type": "array"}}

        def rf(schema):
            return RefResolver.from_schema(schema, id_of=impl.CLS[d].ID_OF, store=store)
    if "far.example" in repr(c["schema"]):
        store2 = _chain_store()

        def rf(schema):
            return RefResolver.from_schema(schema, id_of=impl.CLS[d].ID_OF, store=store2)
    compare(ctx, d, c["schema"], c["schema_with_insertions"], c["insertions"], c["instance"], resolver_factory=rf)
