"""C07 - validation is pure and history-independent; a validator can be reused forever.

Monitor: history differential + scope-stack trace invariant + deep snapshots.
A history of operations is executed on ONE validator object (exhaust / close
early / drop / throw into iterators, validate, is_valid, direct resolves,
context managers, handlers toggling ok/fail/fail-once, user call-outs that
raise on demand).  After every operation (a quiescent point) the resolver's
scope must be what it was before the first call, the instance / schema /
store documents must be unchanged, and the operation's result must equal
what a FRESH validator with healthy handlers gives for that operation alone
(or RefResolutionError while the reused object's handler is failing).
"""
import copy
import gc
import random

import jsonschema
from jsonschema import RefResolver, validators
from jsonschema import exceptions as X

from vf import impl
from vf.gen import refs as R
from vf.gen.instance import InstGen
from vf.gen.schema import SchemaGen
from vf.obs.fingerprint import fp, fps
from vf.obs.wrap import ScopeLog
from vf.util import jdump

ID = "C07"
LEVEL = "fault_enumeration"
RULE = ("histories of 5-30 operations on one validator object over schemas with local, remote (handler-served), "
        "relative, recursive and unresolvable references, nested id/$id three deep, references inside not / contains / "
        "oneOf / anyOf / if (the keywords that abandon a generator), four drafts; operations: is_valid, exhaust "
        "iter_errors, validate, take k errors then close(), take k then drop (+gc), throw() into a suspended iterator, "
        "resolver.resolve / resolving() / in_scope() directly (also with an exception inside the context), toggle the "
        "handler ok/fail/fail-once, make a user keyword / format function / type check raise.  A case is one history "
        "(world + operation list); every history is non-trivial (>= 5 operations on one object); distinct by canonical JSON.")
ASSUMPTIONS = ["CPython finalises dropped generators promptly by reference counting; the cyclic collector is switched off "
               "during a history and never run before a quiescence check, so a scope restored only by garbage collection counts as leaked",
               "re-entering a validator while one of its own iterators is suspended is not generated (not claimed)",
               "caches may grow; only answers are compared; the fresh validator always gets healthy handlers"]
REPORT_COUNTERS = ["histories", "operations", "op:is_valid", "op:exhaust", "op:validate", "op:take_close", "op:take_drop",
                   "op:throw", "op:resolve", "op:resolving", "op:in_scope", "op:toggle_handler", "op:toggle_callout",
                   "abandon_at_scope_depth3plus", "exception_unwound_2plus_scopes", "fail_then_succeed_retrievals",
                   "scope_events", "max_scope_depth", "results_compared", "results_refres_while_failing"]
# unresolvable http references are part of the workload; the harness blocks and records the urlopen call
TRIPWIRE_EXPECTED = ("urlopen",)


class Boom(Exception):
    pass


class Thrown(Exception):
    pass


def shards(tier):
    return 8 if tier == "quick" else 16


def floors(tier):
    f = {"histories": 4000, "operations": 60000, "histories_with_legacy_interface_resolver": 500, "abandon_at_scope_depth3plus": 200, "exception_unwound_2plus_scopes": 200,
         "fail_then_succeed_retrievals": 100, "scope_events": 100000, "max_scope_depth": 4, "results_compared": 15000,
         "results_refres_while_failing": 200, "long_lived_resolver_documents": 2000, "purity_battery_calls": 8000}
    for op in ("is_valid", "exhaust", "validate", "take_close", "take_drop", "throw", "resolve", "resolving", "in_scope",
               "toggle_handler", "toggle_callout"):
        f["op:" + op] = 200
    if tier == "thorough":
        f["failpoints_injected"] = 5000
        f["failpoint_sites_distinct"] = 100      # summed over shards; every shard sees the same ~60 sites
    return f


# ----------------------------------------------------------------------------- worlds

class World:
    """Schema + documents + the switches of its call-outs."""

    def __init__(self, d, schema, store, handler_docs, instances, refs, exotic_kinds=None):
        self.d = d
        self.schema = schema
        self.store = store
        self.handler_docs = handler_docs
        # some instances are handed over in other container classes (defaultdict: a look-up of an absent member would
        # insert it; OrderedDict; a list subclass) - the same JSON values, and just as untouchable
        self.exotic_kinds = {int(k): v for k, v in (exotic_kinds or {}).items()}
        if self.exotic_kinds:
            from vf.gen.values import exotic
            instances = [exotic(x, self.exotic_kinds[i]) if i in self.exotic_kinds else x for i, x in enumerate(instances)]
        self.instances = instances
        self.refs = refs                    # reference strings for direct resolver calls
        self.handler_mode = "ok"            # ok | fail | fail_once
        self.boom = False                   # user keyword raises
        self.format_boom = False
        self.type_boom = False
        self.handler_calls = []

    def describe(self):
        return {"draft": self.d, "schema": self.schema, "store": self.store, "handler_docs": self.handler_docs,
                "instances": self.instances, "refs": self.refs, "exotic_kinds": {str(k): v for k, v in self.exotic_kinds.items()}}


def rich_world(rng, d, unresolvable=True):
    idk = impl.IDKW[d]
    g = SchemaGen(rng, d, maxdepth=1)
    leaf = g.keyword_schema(rng.choice(["type", "minimum", "maxLength", "enum", "pattern"]))
    leaf2 = g.keyword_schema(rng.choice(["type", "maxItems", "minLength", "enum"]))
    H = R.HANDLER_DIR
    # (no fragment-only references inside handler documents: under the custom scheme they hit the recorded
    #  finding C02/non-hierarchical-base-uri and every validation would end in RefResolutionError)
    hdocs = {H + "h0.json": {"definitions": {"x": leaf2}, "properties": {"v": leaf2, "u": {"$ref": R.STORE_DIR + "s1.json#/definitions/q"}}},
             H + "h1.json": leaf}
    pa, pb = rng.choice([("Item.json", "item.json"), ("t.json?n=1", "t.json?n=2"), ("dir/", "dir"), ("a%41.json", "aA.json")])
    hdocs[H + "embedded.json"] = {"type": "string"}
    hdocs[H + "pairs/" + pa] = {"type": "integer"}
    hdocs[H + "pairs/" + pb] = {"type": "string"}
    store = {R.STORE_DIR + "s0.json": {idk: R.STORE_DIR + "s0.json", "items": {"$ref": "s1.json#/definitions/q"}},
             R.STORE_DIR + "s1.json": {"definitions": {"q": leaf2}}}
    # the same relative reference text under two scopes (two documents, two nested base changes) means two things
    ta, tb = rng.sample([{"type": "integer"}, {"type": "string"}, {"type": "array"}, {"type": "null"}, leaf], 2)
    for ver, t in (("v1", ta), ("v2", tb)):
        store[R.STORE_DIR + ver + "/doc.json"] = {"properties": {"v": {"$ref": "#/definitions/item"}, "w": {"$ref": "item.json"}},
                                                  "definitions": {"item": t}}
        store[R.STORE_DIR + ver + "/item.json"] = t
    deep = {idk: "a/", "properties": {"x": {idk: "b/", "items": {idk: "c/", "properties": {
        "y": {"$ref": R.ROOT_URL + "#/definitions/leaf"}, "z": {"$ref": R.STORE_DIR + "s0.json"},
        "b": {"x-boom": True}, "w": {"$ref": H + "h0.json"}}}}}}
    tree = {"properties": {"v": {"$ref": "#/definitions/leaf"}, "kids": {"items": {"$ref": "#/definitions/tree"}},
                           "b": {"x-boom": True}}}
    props = {
        "p": {"$ref": "#/definitions/deep"},
        "rec": {"$ref": "#/definitions/tree"},
        "r": {"$ref": H + "h0.json"},
        "r1": {"$ref": H + "h1.json"},
        "s": {"$ref": "../lib/s0.json".replace("../lib/", R.STORE_DIR)},
        "u": {"$ref": rng.choice([H + "missing.json", "#/definitions/nope", R.STORE_DIR + "nope.json"])},
        "b": {"x-boom": True},
        "f": {"format": "vf-format"},
        "t": {"type": "string"},
        "l": {"$ref": "#/definitions/leaf"},
        # user keywords built on the resolver's context managers (abandoned like any other generator)
        "xs": {"x-inscope": {"scope": "http://other.example/z/", "schema": {"items": {"$ref": R.ROOT_URL + "#/definitions/leaf"}}}},
        "xr": {"x-resolving": R.ROOT_URL + "#/definitions/deep"},
        "xr2": {"items": {"x-resolving": H + "h1.json"}},
        # two URLs that differ only in case / query / trailing slash / an escape designate different documents
        "ua": {"$ref": H + "pairs/" + pa},
        "ub": {"$ref": H + "pairs/" + pb},
        # the draft's own id keyword next to $ref (spellings that resolve whether or not the sibling id is honoured)
        "k": {idk: "http://other.example/x/", "$ref": R.ROOT_URL + "#/definitions/leaf"},
        "k2": {"$ref": "#/definitions/deep", idk: R.ROOT_URL},
        "k3": {"items": {idk: "http://other.example/y/", "$ref": R.ROOT_URL + "#/definitions/tree"}},
        # a subschema that declares (as its id) a URL which a handler serves with OTHER content, and a reference to that
        # URL elsewhere: what the reference designates must not depend on whether the id-bearing subschema was walked
        "emb": {idk: H + "embedded.json", "type": ["integer", "null"]},
        "eref": {"$ref": H + "embedded.json"},
        "emb2": {"items": {idk: "http://other.example/x/emb2.json", "type": "integer"}},
        "eref2": {"$ref": "http://other.example/x/emb2.json"},
        # a nested id that cannot be made a base URI (the call that reaches it fails - C03's recorded finding); the calls
        # AFTER it on the same validator must be what a fresh validator gives
        "badid": {"items": {idk: "http://[", "type": "integer"}},
        "sa": {"$ref": R.STORE_DIR + "v1/doc.json"},
        "sb": {"$ref": R.STORE_DIR + "v2/doc.json"},
        "na": {idk: R.STORE_DIR + "v1/", "properties": {"w": {"$ref": "item.json"}, "v": {"$ref": "doc.json#/definitions/item"}}},
        "nb": {idk: R.STORE_DIR + "v2/", "properties": {"w": {"$ref": "item.json"}, "v": {"$ref": "doc.json#/definitions/item"}}},
    }
    if d >= 4:
        props["q"] = {"not": {"$ref": "#/definitions/deep"}}
        props["o"] = {"oneOf": [{"$ref": "#/definitions/leaf"}, {"$ref": H + "h1.json"}, {"$ref": "#/definitions/deep"}]}
        props["a"] = {"anyOf": [{"$ref": "#/definitions/deep"}, {"$ref": H + "h0.json"}]}
    else:
        props["q"] = {"disallow": [{"$ref": "#/definitions/deep"}]}
        props["o"] = {"type": [{"$ref": "#/definitions/leaf"}, {"$ref": H + "h1.json"}]}
        props["a"] = {"extends": [{"$ref": "#/definitions/deep"}, {"$ref": H + "h0.json"}]}
    if d >= 6:
        props["c"] = {"contains": {"$ref": "#/definitions/deep"}}
    if d >= 7:
        props["i"] = {"if": {"$ref": "#/definitions/deep"}, "then": {"$ref": H + "h0.json"}, "else": {"$ref": "#/definitions/leaf"}}
    names = list(props)
    rng.shuffle(names)
    keep = names[:rng.randrange(4, len(names) + 1)]
    if (rng.random() < 0.6 or not unresolvable) and "u" in keep:
        keep.remove("u")
    S = {idk: R.ROOT_URL, "definitions": {"leaf": leaf, "deep": deep, "tree": tree},
         "properties": {n: props[n] for n in keep}}
    if d != 3:
        S["required"] = ["zz1", "zz2"]       # several top-level errors -> several yield points
    S["additionalProperties"] = False
    # values that are equal in Python but different JSON values must be told apart on a reused validator too
    S["type"] = ["object", "boolean", "null", "array"]
    S["items"] = {"type": ["boolean", "string"]}
    ig = InstGen(rng, leaf)
    ig2 = InstGen(rng, leaf2)

    def deep_inst():
        return {"x": [{"y": ig.any(1), "z": [ig2.any(1), ig2.any(1)], "b": 1, "w": {"v": ig2.any(1)}} for _ in range(rng.randrange(1, 3))]}

    def tree_inst(k):
        out = {"v": ig.any(1), "b": 0}
        if k > 0:
            out["kids"] = [tree_inst(k - 1) for _ in range(rng.randrange(0, 3))]
        return out

    def inst():
        out = {}
        for n in keep:
            if rng.random() < 0.25:
                continue
            if n in ("p", "q", "a"):
                out[n] = deep_inst()
            elif n == "c":
                out[n] = [deep_inst(), 1, deep_inst()]
            elif n == "i":
                out[n] = deep_inst() if rng.random() < 0.5 else ig.any(1)
            elif n == "rec":
                out[n] = tree_inst(rng.randrange(0, 3))
            elif n in ("k2", "xr"):
                out[n] = deep_inst()
            elif n in ("xs", "xr2"):
                out[n] = [ig.any(1), ig.any(1), ig.any(1)]
            elif n == "k3":
                out[n] = [tree_inst(1), tree_inst(0)]
            elif n == "r":
                out[n] = {"v": ig2.any(1)}
            elif n == "s":
                out[n] = [ig2.any(1), ig2.any(1)]
            elif n == "badid":
                out[n] = rng.choice([[], [1], 5])
            elif n in ("emb", "eref", "eref2"):
                out[n] = rng.choice([1, "s", None, 2.5])
            elif n == "emb2":
                out[n] = [rng.choice([1, "s"]), rng.choice([1, "s"])]
            elif n in ("sa", "sb", "na", "nb"):
                out[n] = {"v": rng.choice([1, "s", [], None, ig.any(1)]), "w": rng.choice([1, "s", [], None, ig.any(1)])}
            elif n in ("f", "t"):
                out[n] = rng.choice(["x", "yy", 5])
            else:
                out[n] = ig.any(1)
        if rng.random() < 0.5:
            out["extra" + str(rng.randrange(3))] = 1
        return out
    two = [{n: {"v": rng.choice([1, "s", [], None]), "w": rng.choice([1, "s", [], None])}} for n in ("sa", "sb", "na", "nb") if n in keep]
    two += [{n: rng.choice([1, "s"])} for n in ("emb", "eref", "eref2") if n in keep] + [{"emb2": [1, "s"]}] * ("emb2" in keep)
    insts = [inst() for _ in range(3)] + rng.sample(two, min(len(two), 3)) + [rng.choice([1, "s", [], None])] + \
        rng.sample([True, 1, 1.0, False, 0, 0.0, [True], [1], [1.0], [0, False], "1", None], 4)
    refs = ["#/definitions/leaf", "#/definitions/deep", H + "h0.json", H + "h0.json#/definitions/x", H + "h1.json",
            R.STORE_DIR + "s0.json", "#/definitions/nope", H + "missing.json", "#/definitions/deep/properties/x",
            R.STORE_DIR + "v1/item.json", R.STORE_DIR + "v2/doc.json#/definitions/item"]
    kinds = {}
    if rng.random() < 0.5:
        from vf.gen.values import EXOTIC_KINDS
        for i in rng.sample(range(3), 2):
            kinds[i] = rng.choice(("defaultdict",) + EXOTIC_KINDS)
    return World(d, S, store, hdocs, insts, refs, exotic_kinds=kinds)


def arranged_world(rng, d):
    g = SchemaGen(rng, d, maxdepth=3)
    for _ in range(10):
        s0 = g.schema()
        if not isinstance(s0, dict):
            continue
        arr = R.arrange(rng, d, s0)
        if arr is None or not R.arrangement_ok(arr):
            continue
        ig = InstGen(rng, s0)
        refs = ["#"]
        for r in R.ref_positions(arr.schema)[:4]:
            from vf.gen.mutate import get_at
            refs.append(get_at(arr.schema, list(r))["$ref"])
        refs.append("#/definitions/__nope__")
        return World(d, arr.schema, arr.store, arr.handler_docs, ig.batch(4), refs)
    return rich_world(rng, d)


# ----------------------------------------------------------------------------- the object under test

def build_class(world):
    base = impl.CLS[world.d]

    def x_boom(validator, value, instance, schema):
        if world.boom:
            raise Boom("user keyword raised")
        if instance == 1:
            yield X.ValidationError("x-boom does not like 1")

    def x_inscope(validator, value, instance, schema):
        # a user keyword written with the documented context managers
        with validator.resolver.in_scope(value["scope"]):
            for error in validator.descend(instance, value["schema"]):
                yield error

    def x_resolving(validator, value, instance, schema):
        with validator.resolver.resolving(value) as sub:
            for error in validator.descend(instance, sub):
                yield error

    def is_string(checker, instance):
        if world.type_boom and isinstance(instance, str) and instance == "yy":
            raise Boom("type check raised")
        return isinstance(instance, str)
    return validators.extend(base, {"x-boom": x_boom, "x-inscope": x_inscope, "x-resolving": x_resolving},
                             type_checker=base.TYPE_CHECKER.redefine("string", is_string))


def build_validator(world, cls, healthy):
    def handler(url):
        doc_url = url.split("#")[0]
        if not healthy:
            world.handler_calls.append((url, world.handler_mode))
            if world.handler_mode == "fail":
                raise OSError("handler down")
            if world.handler_mode == "fail_once":
                world.handler_mode = "ok"
                raise OSError("handler down once")
        return world.handler_docs[doc_url]
    fc = jsonschema.FormatChecker(formats=())

    def vf_format(instance):
        if world.format_boom and not healthy:
            raise Boom("format function raised")
        return instance != "x"
    fc.checks("vf-format")(vf_format)
    resolver = RefResolver.from_schema(world.schema, id_of=cls.ID_OF, store=dict(world.store), handlers={"vf": handler})
    if getattr(world, "legacy_resolver", False):
        resolver = LegacyResolver(resolver)
    return cls(world.schema, resolver=resolver, format_checker=fc)


class LegacyResolver:
    """A resolver with the pre-`resolve()` interface (the `$ref` keyword then goes through `resolving()`):
    everything is forwarded to a stock RefResolver except `resolve`."""

    def __init__(self, inner):
        self._inner = inner

    def __getattr__(self, name):
        if name == "resolve":
            raise AttributeError(name)
        return getattr(self._inner, name)


def outcome(fn):
    try:
        return ("ok", fn())
    except X.RefResolutionError:
        return ("RefResolutionError", None)
    except X.UnknownType:
        return ("UnknownType", None)
    except (Boom, Thrown) as e:
        return (type(e).__name__, None)
    except X.ValidationError as e:
        return ("ValidationError", fp(e))
    except RecursionError:
        return ("RecursionError", None)
    except ValueError as e:
        # an id urllib cannot parse (recorded finding of C03): not judged here, but what comes AFTER it on the same
        # validator is
        return ("ValueError", None)


def perform(v, op):
    """Execute one operation; returns its observable result."""
    kind = op["op"]
    inst = op.get("instance")
    if kind == "is_valid":
        return outcome(lambda: v.is_valid(inst))
    if kind == "exhaust":
        return outcome(lambda: [fp(e) for e in v.iter_errors(inst)])
    if kind == "validate":
        return outcome(lambda: v.validate(inst))
    if kind in ("take_close", "take_drop", "throw"):
        def run():
            it = v.iter_errors(inst)
            got = []
            for _ in range(op["k"]):
                e = next(it, None)
                if e is None:
                    break
                got.append(fp(e))
            op["_depth_at_abandon"] = len(v.resolver._scopes_stack)
            if kind == "take_close":
                it.close()
            elif kind == "take_drop":
                del it
            else:
                try:
                    it.throw(Thrown("thrown into the iterator"))
                except Thrown:
                    pass
                except StopIteration:
                    pass
            return got
        return outcome(run)
    if kind == "resolve":
        def run():
            url, resolved = getattr(v.resolver, "_inner", v.resolver).resolve(op["ref"])
            return [url, jdump(resolved)[:200]]
        return outcome(run)
    if kind == "resolving":
        def run():
            with v.resolver.resolving(op["ref"]) as resolved:
                if op.get("raise_inside"):
                    raise Thrown("inside resolving()")
                return jdump(resolved)[:200]
        return outcome(run)
    if kind == "in_scope":
        def run():
            with v.resolver.in_scope(op["scope"]):
                inner = v.resolver.resolution_scope
                if op.get("raise_inside"):
                    raise Thrown("inside in_scope()")
                return inner
        return outcome(run)
    raise AssertionError(kind)


def snapshot(world):
    return jdump([world.schema, world.store, world.handler_docs, world.instances])


def gen_history(rng, world):
    ops = []
    n = rng.randrange(5, 31)
    for _ in range(n):
        r = rng.random()
        inst_i = rng.randrange(len(world.instances))
        if r < 0.16:
            ops.append({"op": "is_valid", "i": inst_i})
        elif r < 0.30:
            ops.append({"op": "exhaust", "i": inst_i})
        elif r < 0.40:
            ops.append({"op": "validate", "i": inst_i})
        elif r < 0.52:
            ops.append({"op": "take_close", "i": inst_i, "k": rng.randrange(1, 6)})
        elif r < 0.62:
            ops.append({"op": "take_drop", "i": inst_i, "k": rng.randrange(1, 6)})
        elif r < 0.70:
            ops.append({"op": "throw", "i": inst_i, "k": rng.randrange(1, 5)})
        elif r < 0.76:
            ops.append({"op": "resolve", "ref": rng.choice(world.refs)})
        elif r < 0.81:
            ops.append({"op": "resolving", "ref": rng.choice(world.refs), "raise_inside": rng.random() < 0.4})
        elif r < 0.85:
            ops.append({"op": "in_scope", "scope": rng.choice(["sub/", "http://other.example/x/", "../y.json", "#frag"]),
                        "raise_inside": rng.random() < 0.4})
        elif r < 0.93:
            ops.append({"op": "toggle_handler", "mode": rng.choice(["ok", "fail", "fail_once"])})
        else:
            ops.append({"op": "toggle_callout", "which": rng.choice(["boom", "format_boom", "type_boom"]),
                        "value": rng.random() < 0.6})
    return ops


def run_history(ctx, world, ops, slog):
    gc.collect()
    gc.disable()
    try:
        _run_history(ctx, world, ops, slog)
    finally:
        gc.enable()


def _run_history(ctx, world, ops, slog):
    from vf.obs import ambient
    amb0 = ambient.snapshot()          # before anything of the library is constructed
    cls = build_class(world)
    V = build_validator(world, cls, healthy=False)
    scope0 = V.resolver.resolution_scope
    snap0 = snapshot(world)
    case = {"world": world.describe(), "history": [dict((k, v) for k, v in o.items() if not k.startswith("_")) for o in ops]}
    ctx.count("histories")
    ctx.case(case)
    failed_before = set()
    for n, op in enumerate(ops):
        kind = op["op"]
        ctx.count("operations")
        ctx.count("op:" + kind)
        if kind == "toggle_handler":
            world.handler_mode = op["mode"]
            continue
        if kind == "toggle_callout":
            setattr(world, op["which"], op["value"])
            continue
        op = dict(op)
        if "i" in op:
            op["instance"] = world.instances[op["i"]]
        calls_before = len(world.handler_calls)
        mode_before = world.handler_mode
        ev_before = len(slog.events)
        got = perform(V, op)
        # NO gc.collect() here: once the caller holds no iterator the scope must already be restored by
        # reference counting alone (automatic cyclic collection is switched off for the whole history so
        # that a restoration that only happens "when the collector gets round to it" is seen as the leak it is)
        where = dict(case, step=n, operation={k: v for k, v in op.items() if not k.startswith("_") and k != "instance"})
        # --- quiescent point: scope restored
        stack = V.resolver._scopes_stack
        if len(stack) != 1 or V.resolver.resolution_scope != scope0:
            ctx.violation("scope-not-restored", where, "after step %d (%s) the scope stack is %r, was [%r]" % (n, kind, stack[-4:], scope0))
            return
        # --- trace invariant over the push/pop log of this operation
        depth = 1
        maxd = 1
        for ev in slog.events[ev_before:]:
            if ev[1] != id(getattr(V.resolver, "_inner", V.resolver)):
                continue
            if ev[0] == "push":
                depth += 1
            else:
                depth -= 1
            maxd = max(maxd, depth)
            if depth < 1 or ev[2] != depth:
                ctx.violation("scope-trace", where, "push/pop log not LIFO-balanced: event %r at model depth %d" % (ev, depth))
                return
        if kind in ("take_close", "take_drop", "throw") and op.get("_depth_at_abandon", 1) >= 3:
            ctx.count("abandon_at_scope_depth3plus")
        if got[0] in ("Boom", "Thrown", "RefResolutionError") and maxd >= 3:
            ctx.count("exception_unwound_2plus_scopes")
        # --- purity
        if snapshot(world) != snap0:
            ctx.violation("mutation", where, "instance, schema or a store document changed during step %d (%s)" % (n, kind))
            return
        amb = ambient.snapshot()
        if amb != amb0:
            ctx.violation("ambient-state-changed", where, "after step %d (%s) the interpreter's ambient state differs (also while an iterator is "
                          "suspended): %r" % (n, kind, ambient.diff(amb0, amb)))
            return
        # --- history independence
        callouts = (world.boom, world.format_boom, world.type_boom)
        fresh_world_flags = callouts
        Fv = build_validator(world, cls, healthy=True)
        # the fresh validator performs only this operation, with healthy handlers but the same call-out switches
        op2 = dict(op)
        want = perform_fresh(world, Fv, op2)
        ctx.count("results_compared")
        handler_failed = any(m in ("fail", "fail_once") for (_u, m) in world.handler_calls[calls_before:])
        if handler_failed:
            failed_before.update(u.split("#")[0] for (u, m) in world.handler_calls[calls_before:])
        elif any(u.split("#")[0] in failed_before for (u, m) in world.handler_calls[calls_before:]):
            ctx.count("fail_then_succeed_retrievals")
        if got == want:
            continue
        if handler_failed and got[0] == "RefResolutionError":
            ctx.count("results_refres_while_failing")
            continue
        if handler_failed and kind in ("take_close", "take_drop", "throw") and got[0] == "RefResolutionError":
            continue
        ctx.violation("history-dependent-result", where, "step %d (%s): reused validator gives %s, a fresh one %s%s" % (
            n, kind, _short(got), _short(want), " (handler was failing)" if handler_failed else ""))
        return


def perform_fresh(world, Fv, op):
    """Same operation on a fresh validator; format call-out raises there too when switched on
    (the switch is part of the operation's environment, not of the history)."""
    if world.format_boom:
        # healthy=True disables the format fault in build_validator; re-enable it for parity
        fc = Fv.format_checker
        orig = fc.checkers["vf-format"][0]

        def boom(instance):
            raise Boom("format function raised")
        fc.checkers["vf-format"] = (boom, ())
    return perform(Fv, op)


def _short(x):
    s = repr(x)
    return s if len(s) < 300 else s[:300] + "..."


def failpoint_sweep(ctx, rng, world, LF):
    """Thorough tier: a keyword function (built-in or user-supplied) may raise at any point.  Inject a
    fault at the k-th statement start inside keyword-function bodies during an iteration on a REUSED
    validator, then check the quiescent state and that the next, undisturbed validation equals a fresh one."""
    from vf.obs.monitor import FaultInjected
    cls = build_class(world)
    V = build_validator(world, cls, healthy=True)
    scope0 = V.resolver.resolution_scope
    snap0 = snapshot(world)
    for idx, inst in enumerate(world.instances):
        LF.arm(None)
        LF.count = 0
        base = outcome(lambda: [fp(e) for e in V.iter_errors(inst)])
        n = LF.disarm()
        if n == 0 or base[0] != "ok":
            continue
        ks = list(range(1, n + 1))
        if len(ks) > 40:
            ks = rng.sample(ks, 40)
        for k in ks:
            LF.arm(k)
            try:
                list(V.iter_errors(inst))
                fired = False
            except FaultInjected:
                fired = True
            except (X.RefResolutionError, Boom):
                fired = True
            LF.disarm()
            ctx.count("failpoints_injected")
            site = LF.fired
            if site:
                ctx.counters["failpoint_site:%s:%s:%d" % site] += 1
            case = {"world": world.describe(), "failpoint": {"instance_index": idx, "k": k, "site": list(site) if site else None}}
            ctx.case(["failpoint", world.schema, inst, k], nontrivial=fired)
            if len(V.resolver._scopes_stack) != 1 or V.resolver.resolution_scope != scope0:
                ctx.violation("scope-not-restored", case, "after a fault at %r the scope stack is %r" % (site, V.resolver._scopes_stack[-4:]))
                return
            if snapshot(world) != snap0:
                ctx.violation("mutation", case, "instance/schema/store changed after a fault at %r" % (site,))
                return
            again = outcome(lambda: [fp(e) for e in V.iter_errors(inst)])
            fresh = outcome(lambda: [fp(e) for e in build_validator(world, cls, healthy=True).iter_errors(inst)])
            if again != fresh:
                ctx.violation("history-dependent-result", case, "after a fault at %r the reused validator gives %s, a fresh one %s" % (
                    site, _short(again), _short(fresh)))
                return


def long_lived_resolver(ctx, n_docs):
    """One validator that, over its life, retrieves very many distinct documents (an API gateway, a schema registry):
    however much it has seen, it keeps answering what a fresh validator answers - for its own local references, for
    documents it retrieved long ago, for store documents."""
    from jsonschema import RefResolver
    for d in impl.DRAFTS:
        idk = impl.IDKW[d]
        H = R.HANDLER_DIR + "gen/"
        calls = []

        def handler(url, calls=calls):
            calls.append(url)
            k = int(url.split("#")[0].rsplit("/", 1)[1].split(".")[0])
            return {"type": ["integer", "string", "null"][k % 3], "definitions": {"k": {"enum": [k]}}}
        S = {idk: R.ROOT_URL, "definitions": {"leaf": {"type": "integer"}, "other": {"type": "string"}},
             "properties": {"l": {"$ref": "#/definitions/leaf"}, "o": {"items": {"$ref": "#/definitions/other"}},
                            "s": {"$ref": R.STORE_DIR + "kept.json"}, "g0": {"$ref": H + "0.json"}, "g7": {"$ref": H + "7.json#/definitions/k"}}}
        store = {R.STORE_DIR + "kept.json": {"type": "null"}}

        def make():
            return impl.CLS[d](S, resolver=RefResolver.from_schema(S, id_of=impl.CLS[d].ID_OF, store=dict(store), handlers={"vf": handler}))
        probes = [{"l": "s", "o": [1], "s": 1, "g0": "x", "g7": 8}, {"l": 1, "o": ["s"], "s": None, "g0": 3, "g7": 7}]
        V = make()
        early = {"l": "s"}                                              # ONE local reference is resolved early ...
        first = [fps(V.iter_errors(early))]
        for k in range(n_docs):
            try:
                V.resolver.resolve(H + "%d.json" % k)
            except Exception as e:
                ctx.violation("history-dependent-result", {"draft": d, "long_lived_resolver": True, "documents": k}, "retrieval %d raised %s" % (k, type(e).__name__))
                break
        ctx.count("long_lived_resolver_documents", n_docs)
        n_calls = len(calls)
        got = [outcome(lambda p_=p_: fps(V.iter_errors(p_))) for p_ in probes]
        refetched = len(calls) - n_calls
        want = [outcome(lambda p_=p_: fps(make().iter_errors(p_))) for p_ in probes]
        ctx.case([d, "long-lived-resolver", n_docs], nontrivial=True)
        # (... the other local references, the store document and the early retrievals are first needed only now)
        if got != want or fps(V.iter_errors(early)) != first[0]:
            ctx.violation("history-dependent-result", {"draft": d, "schema": S, "long_lived_resolver": True, "documents": n_docs},
                          "after retrieving %d distinct documents the validator gives %s, a fresh one %s" % (n_docs, _short(got), _short(want)))
        elif refetched:
            ctx.violation("history-dependent-result", {"draft": d, "schema": S, "long_lived_resolver": True, "documents": n_docs},
                          "documents retrieved earlier (cache_remote on) were fetched again: %r" % calls[n_calls:][:3])


def _ids(x, acc):
    if isinstance(x, dict):
        acc.append(id(x))
        for v in x.values():
            _ids(v, acc)
    elif isinstance(x, list):
        acc.append(id(x))
        for v in x:
            _ids(v, acc)
    return acc


UNSORTED = [[[3, 1], [2, 9], [1, 5]], [["b"], ["a"]], [3, 1, 2], ["b", "a", "c"], [[2, [1, 0]], [1, [9, 8]]], [{"b": 1, "a": 2}, {"a": 0}], {"z": 1, "a": [2, 1], "m": {"y": 0, "b": [[1], [0]]}},
            [[], [1], []], [[1.5, 1], [1, 1.0]], [["x", 1], [1, "x"]], [None, [None], [[None]]], {"k": [[3], [2], [1]], "a": "s", "b": "t"}, [[True, 0], [False, 1]], "plain", 7]


def purity_battery(ctx):
    """Every keyword of every draft over nested, deliberately UNSORTED containers: after each entry point the instance and the
    schema read exactly as before (same text, members and elements in the same order, the very same container objects)."""
    import copy
    import jsonschema
    from vf.gen.schema import SchemaGen
    n = 0
    for d in impl.DRAFTS:
        cls = impl.CLS[d]
        rng = random.Random(77 + d)
        g = SchemaGen(rng, d, maxdepth=1)
        mo = "divisibleBy" if d == 3 else "multipleOf"
        schemas = [{"uniqueItems": True}, {"items": {"uniqueItems": True}}, {"uniqueItems": True, "items": [{"maxItems": 1}, {"minItems": 9}]}, {"enum": [[[1, 5], [2, 9], [3, 1]], ["a", "b"]]},
                   {"properties": {"a": {"uniqueItems": True}, "k": {"uniqueItems": True, "items": {"enum": [[1], [2]]}}}, "additionalProperties": {"type": "string"}},
                   {"dependencies": {"z": "a" if d == 3 else ["a"], "a": {"required": ["m"]} if d != 3 else {"properties": {"m": {"required": True}}}}},
                   {"patternProperties": {"^[a-z]$": {"uniqueItems": True}}, "additionalProperties": False}, {"items": [{"uniqueItems": True}], "additionalItems": {"uniqueItems": True, "maxItems": 1}},
                   {"type": ["array", "object"], "minItems": 4, mo: 2}, {"extends": [{"uniqueItems": True}, {"items": {"uniqueItems": True}}]} if d == 3 else {"allOf": [{"uniqueItems": True}, {"items": {"uniqueItems": True}}]}]
        if d >= 6:
            schemas += [{"const": [[3, 1], [2, 9]]}, {"contains": {"uniqueItems": True, "minItems": 2}}, {"propertyNames": {"enum": ["z", "a"]}}]
        if d >= 7:
            schemas += [{"if": {"uniqueItems": True}, "then": {"items": {"uniqueItems": True}}, "else": {"maxItems": 0}}]
        if d != 3:
            schemas += [{"required": ["m", "a", "b"]}, {"anyOf": [{"uniqueItems": True, "maxItems": 1}, {"items": {"enum": [[1]]}}]}, {"oneOf": [{"uniqueItems": True}, {"items": {"uniqueItems": True}}]}, {"not": {"uniqueItems": True}}]
        for k in sorted(cls.VALIDATORS):
            if k in ("$ref", "format"):
                continue
            try:
                schemas.append(g.keyword_schema(k))
            except Exception:
                pass
        for S in schemas:
            try:
                if not impl.accepts(d, S):
                    continue
            except Exception:
                continue
            for inst0 in UNSORTED:
                n += 1
                if not ctx.mine(n):
                    continue
                for how in ("is_valid", "iter_errors", "validate", "module validate", "take one, drop"):
                    inst, schema = copy.deepcopy(inst0), copy.deepcopy(S)
                    before = (repr(inst), _ids(inst, []), repr(schema), _ids(schema, []))
                    ctx.count("purity_battery_calls")
                    try:
                        v = cls(schema)
                        if how == "is_valid":
                            v.is_valid(inst)
                        elif how == "iter_errors":
                            list(v.iter_errors(inst))
                        elif how == "validate":
                            v.validate(inst)
                        elif how == "module validate":
                            jsonschema.validate(inst, schema, cls=cls)
                        else:
                            it = v.iter_errors(inst)
                            next(it, None)
                            del it
                    except X.ValidationError:
                        pass
                    except Exception as e:
                        ctx.count("purity_battery_exception_delegated_to_C03")
                        continue
                    after = (repr(inst), _ids(inst, []), repr(schema), _ids(schema, []))
                    if after != before:
                        what = "instance" if after[:2] != before[:2] else "schema"
                        ctx.violation("input-modified", {"draft": d, "schema": S, "instance": inst0, "entry_point": how, "purity_battery": True},
                                      "%s changed the %s: %s -> %s" % (how, what, (before[0] if what == "instance" else before[2])[:120], (after[0] if what == "instance" else after[2])[:120]))
                        break


def run(ctx):
    impl.quiet()
    purity_battery(ctx)
    if ctx.shard == 0:
        long_lived_resolver(ctx, ctx.scale(700, 5000))
    if ctx.tier == "thorough":
        from vf.obs.monitor import LineFaults
        LF = LineFaults()
        ctx.notes["failpoint_excluded_lines"] = LF.excluded
        LF.start()
        try:
            rr = random.Random(7070 + ctx.shard)
            for i in range(40):
                world = rich_world(rr, impl.DRAFTS[i % 4], unresolvable=False)
                failpoint_sweep(ctx, rr, world, LF)
        finally:
            LF.stop()
        ctx.count("failpoint_sites_distinct", sum(1 for k in ctx.counters if k.startswith("failpoint_site:")))
    slog = ScopeLog()
    slog.install()
    try:
        rng = ctx.rng
        for i in range(ctx.scale(800, 6000)):
            d = impl.DRAFTS[i % 4]
            world = rich_world(rng, d) if rng.random() < 0.7 else arranged_world(rng, d)
            world.legacy_resolver = rng.random() < 0.25
            if world.legacy_resolver:
                ctx.count("histories_with_legacy_interface_resolver")
            ops = gen_history(rng, world)
            run_history(ctx, world, ops, slog)
            if i % 97 == 0:
                ctx.sample({"draft": d, "schema": world.schema, "history": ops[:8]})
            if len(slog.events) > 200000:
                ctx.count("scope_events", len(slog.events))
                slog.clear()
    finally:
        slog.uninstall()
    ctx.count("scope_events", len(slog.events))
    if ctx.shard == 0:
        ctx.count("max_scope_depth", slog.max_depth)


def replay(ctx, rec):
    if rec["case"].get("purity_battery"):
        impl.quiet()
        ctx.nshards, ctx.shard = 1, 0
        purity_battery(ctx)
        return
    return _replay(ctx, rec)


def _replay(ctx, rec):
    impl.quiet()
    if rec["case"].get("long_lived_resolver"):
        long_lived_resolver(ctx, int(rec["case"].get("documents", 700)))
        return
    c = rec["case"]
    w = c["world"]
    world = World(w["draft"], w["schema"], w["store"], w["handler_docs"], w["instances"], w["refs"], w.get("exotic_kinds"))
    slog = ScopeLog()
    slog.install()
    try:
        run_history(ctx, world, [dict(o) for o in c["history"]], slog)
    finally:
        slog.uninstall()
