"""C19 - CLI: exit status, diagnostics and per-instance processing follow the library.

Monitor: outcome model + stream parser.  Fixtures (schema file state x list of
instance file states x output mode x error format x validator x base URI) are
run in-process through cli.run(cli.parse_args(argv), stdout, stderr, stdin)
and, for a sample, through `python -m jsonschema` subprocesses; the exit
status and both streams are compared with what the library reports for the
same files.
"""
import collections
import io
import itertools
import json
import os
import random
import shutil
import subprocess
import sys
import tempfile

import jsonschema
from jsonschema import RefResolver, cli
from jsonschema import exceptions as X

from vf import impl, util
from vf.obs import tripwire

ID = "C19"
LEVEL = "exploration"
RULE = ("schema file in {missing, not JSON, invalid schema, valid} x ALL lists of n <= 3 instance files each in {missing, "
        "not JSON, invalid with 1-4 errors, valid} (4^n state vectors, every order) plus sampled lists of 4-6 and one "
        "instance on stdin; output plain (default and custom --error-format with unambiguous delimiters) and pretty; "
        "--validator by short and dotted name; $schema-driven class selection; --base-uri file://<scratch>/ with "
        "relative file references; a sample re-run through `python -m jsonschema` subprocesses.  A case is one fixture "
        "(argv + file states); non-trivial when it has >= 1 instance or a bad schema; distinct by canonical JSON.")
ASSUMPTIONS = ["the wording of load diagnostics is not pinned: only that exactly one diagnostic block/line mentions the file's unique path",
               "only ENOENT counts as 'missing' (other OS errors propagate by design)",
               "pretty mode: block headers ===[Type]===(path)=== and the success header are parsed structurally"]
REPORT_COUNTERS = ["fixtures", "fixtures_exhaustive_vectors", "fixtures_last_valid_earlier_bad", "subprocess_runs",
                   "stdin_fixtures", "base_uri_fixtures", "validator_option_fixtures", "mode:plain-custom",
                   "mode:plain-default", "mode:pretty", "exit0", "exit_nonzero", "validation_chunks_checked",
                   "load_diagnostics_checked"]
TRIPWIRE_EXPECTED = ("urlopen-file",)

# (the custom format deliberately begins with "@": a value is a value, not an argument file)
SEP_A, SEP_B, SEP_C = "@\x1e", "\x1d", "\x1f"
CUSTOM_FORMAT = SEP_A + "{file_name}" + SEP_B + "{error.message}" + SEP_B + "{error.validator}" + SEP_C
# a format that indexes into and pads attributes of the error (e.g. to print the title of the schema that failed): legal
# for every error of a run over SCHEMA_TITLED, where each (sub)schema has a title
CUSTOM_FORMAT_INDEXED = SEP_A + "{file_name}" + SEP_B + "{error.schema[title]}|{error.message:>3}|{error.instance!r:.30}" + SEP_B + "{error.validator!s:<14}" + SEP_C
ACTIVE = {"format": CUSTOM_FORMAT}
PRETTY_RULE = "-----------------------------"

SCHEMA = {"properties": {"a": {"type": "integer"}, "b": {"type": "string"}, "c": {"maxLength": 1}}, "required": ["p", "q"],
          "type": ["object", "array", "null", "boolean"], "maxItems": 0}
SCHEMA_TITLED = {"title": "root", "properties": {"a": {"title": "A", "type": "integer"}, "b": {"title": "B {b}", "type": "string"},
                                                  "c": {"title": "C %s", "maxLength": 1}},
                 "required": ["p", "q"], "type": ["object", "array", "null", "boolean"], "maxItems": 0}
INVALID = {1: {"p": 1, "q": 1, "a": "x"}, 2: {"p": 1, "a": "x", "b": 1}, 3: {"a": "x", "b": 1, "q": 0},
           4: {"a": "x", "b": 1}, 5: {"a": "x", "b": 1, "c": "toolong"}, 6: {}, 7: {"p": 0},
           8: 0, 9: "", 10: [1], 11: 1.5, 12: "null", 13: [None]}
VALID = [{"p": 1, "q": 2}, {"p": 1, "q": 2, "a": 5, "b": "s"}, {"p": None, "q": [], "zz": 1}, None, False, True, []]
BAD_SCHEMAS = [{"type": 12}, {"properties": {"a": {"minimum": "x"}}, "required": "p"}, {"items": 5, "type": "nope"}]


def shards(tier):
    return 8 if tier == "quick" else 16


def floors(tier):
    return {"fixtures": 2500, "fixtures_exhaustive_vectors": 600, "fixtures_last_valid_earlier_bad": 300,
            "subprocess_runs": 30 if tier == "quick" else 100, "stdin_fixtures": 40, "base_uri_fixtures": 40,
            "validator_option_fixtures": 100, "validator_vs_dollar_schema_fixtures": 150, "mode:plain-custom": 500, "mode:plain-default": 300, "mode:pretty": 500, "mode:plain-empty": 300,
            "exit0": 100, "exit_nonzero": 1000, "fixtures_long_lists": 10, "indexed_error_formats": 100, "blank_stdin_fixtures": 15, "self_named_schema_with_local_references": 100, "validation_chunks_checked": 2500, "load_diagnostics_checked": 1500,
            "fixtures_with_a_path_listed_again": 250, "repeated_listing_of:invalid": 20, "repeated_listing_of:valid": 20,
            "repeated_listing_of:missing": 20, "repeated_listing_of:notjson": 20}


class Fixture:
    def __init__(self, root, rng, n):
        self.dir = os.path.join(root, "fx%d" % n)
        os.makedirs(self.dir)
        self.rng = rng
        self.k = 0

    # characters that mean something to %-formatting, str.format and the shell, in file names (which the CLI echoes)
    DECOR = ["", "", "", "{id}", "{}", "{body}", "50%", "a b", "\u00e9", "%s", "{0}", "'q'", "{error}", "{file_name}", "%(x)s", "{{", "$HOME"]

    def path(self, tag):
        self.k += 1
        return os.path.join(self.dir, "%s_%d_%06d%s.json" % (tag, self.k, self.rng.randrange(10 ** 6), self.rng.choice(self.DECOR)))

    def write(self, tag, content):
        p = self.path(tag)
        with open(p, "w") as f:
            f.write(content)
        return p


# a complete JSON value followed by something else is not a JSON text
TRAILING_GARBAGE = ['{"a": 1}\n{"b": 2}', '{"a": 1}}', '[] []', '1 2', 'null,', '{} x', '"s" "t"', '{"p": 1, "q": 1}]', 'true false', '{}\n\n{}', '[1],']


def build(fx, rng, schema_state, inst_states, schema_obj=None, draft_kw=None):
    """Create the files.  Returns (schema_path, schema_value_or_None, [(path, state, value)])."""
    sval = None
    if schema_state == "missing":
        sp = fx.path("schema_missing")
    elif schema_state == "notjson":
        sp = fx.write("schema_notjson", rng.choice(["{not json", "", "[1, 2", "{'a': 1}"] + TRAILING_GARBAGE))
    elif schema_state == "invalid":
        sval = rng.choice(BAD_SCHEMAS)
        sp = fx.write("schema_invalid", json.dumps(sval))
    else:
        sval = dict(schema_obj if schema_obj is not None else SCHEMA)
        if draft_kw:
            sval["$schema"] = draft_kw
        sp = fx.write("schema_valid", json.dumps(sval))
    insts = []
    for st in inst_states:
        if st == "missing":
            insts.append((fx.path("inst_missing"), st, None))
        elif st == "notjson":
            insts.append((fx.write("inst_notjson", rng.choice(["{oops", "[1,", "nul", ""] + TRAILING_GARBAGE)), st, None))
        elif st == "valid":
            v = rng.choice(VALID)
            insts.append((fx.write("inst_valid", json.dumps(v)), st, v))
        else:
            v = INVALID[rng.choice(sorted(INVALID))]
            insts.append((fx.write("inst_invalid", json.dumps(v)), st, v))
    return sp, sval, insts


def run_inprocess(argv, stdin_text=None):
    out, err = io.StringIO(), io.StringIO()
    args = cli.parse_args(argv)
    code = cli.run(args, stdout=out, stderr=err, stdin=io.StringIO(stdin_text or ""))
    return code, out.getvalue(), err.getvalue()


def run_subprocess(argv, stdin_text=None):
    env = dict(os.environ)
    env["PYTHONHASHSEED"] = "0"
    repo = util.repo_dir()
    env["PYTHONPATH"] = repo + os.pathsep + env.get("PYTHONPATH", "")
    p = subprocess.run([sys.executable, "-m", "jsonschema"] + argv, input=stdin_text or "", capture_output=True, text=True,
                       env=env, timeout=120, cwd=repo)
    return p.returncode, p.stdout, p.stderr


def library_errors(cls, schema, base_uri, instance):
    resolver = RefResolver(base_uri=base_uri, referrer=schema) if base_uri is not None else None
    return list(cls(schema, resolver=resolver).iter_errors(instance))


def blocks(text, mode):
    if mode == "pretty":
        parts = text.split(PRETTY_RULE + "\n")
        return [p for p in parts if p.strip()]
    return [l for l in text.split("\n") if l.strip()]


def check(ctx, case, argv, mode, sp, schema_state, sval, insts, cls_opt, base_uri, result, stdin_mode=False, via="in-process"):
    code, out, err = result
    bad = lambda kind, msg: ctx.violation(kind, dict(case, via=via, exit=code, stdout=out[:600], stderr=err[:1500]), msg)
    # ---- expected outcome from the library
    expect_ok = True
    expected_chunks = []      # per instance: list of (path, [errors])
    load_bad = []             # paths with a load diagnostic
    success = []
    if schema_state in ("missing", "notjson"):
        expect_ok = False
        load_bad.append(sp)
        process_instances = False
    else:
        cls = cls_opt or jsonschema.validators.validator_for(sval)
        try:
            cls.check_schema(sval)
            schema_error = None
        except X.SchemaError as e:
            schema_error = e
        if schema_error is not None:
            expect_ok = False
            expected_chunks.append((sp, [schema_error]))
            process_instances = False
        else:
            process_instances = True
    if process_instances:
        for path, st, val in insts:
            if st in ("missing", "notjson"):
                expect_ok = False
                load_bad.append(path)
                continue
            try:
                errs = library_errors(cls, sval, base_uri, val)
            except Exception as e:
                ctx.count("skipped_library_exception")
                return
            if errs:
                expect_ok = False
                expected_chunks.append((path, errs))
            else:
                success.append(path)
    ctx.count("exit0" if expect_ok else "exit_nonzero")
    # a path listed several times is processed once per listing: what the streams must hold for it is the sum over
    # its listings (chunks and diagnostics are attributed to files by path)
    merged = {}
    for path, errs in expected_chunks:
        merged.setdefault(path, []).extend(errs)
    expected_chunks = list(merged.items())
    load_count = collections.Counter(load_bad)
    # ---- exit status
    # (what run() returns is handed to sys.exit(): the parent process sees its low 8 bits)
    seen_by_parent = 0 if code is None else (code & 0xFF) if isinstance(code, int) else 1
    if (seen_by_parent == 0) != expect_ok:
        return bad("exit-status", "exit status %r (the parent process sees %r), expected %s" % (code, seen_by_parent, "0" if expect_ok else "non-zero"))
    # ---- stdout
    if mode != "pretty":
        if out != "":
            return bad("stdout-in-plain-mode", "plain mode wrote %r to stdout" % out[:200])
    else:
        want = "".join("===[SUCCESS]===(%s)===\n" % p for p in success)
        if out != want:
            return bad("pretty-success-headers", "stdout %r, expected one success header per valid instance in order: %r" % (out[:300], want[:300]))
    # ---- stderr: validation chunks
    remainder = err
    if mode == "plain-custom":
        pos = 0
        for path, errs in expected_chunks:
            want = sorted(ACTIVE["format"].format(file_name=path, error=e) for e in errs)
            got = []
            # chunks of this file, in stream order
            while True:
                i = remainder.find(SEP_A + path + SEP_B)
                if i < 0:
                    break
                j = remainder.find(SEP_C, i)
                got.append(remainder[i:j + 1])
                remainder = remainder[:i] + remainder[j + 1:]
            ctx.count("validation_chunks_checked", len(want))
            if sorted(got) != want:
                return bad("validation-chunks", "%s: stderr has %d chunk(s) %r, library reports %d: %r" % (
                    os.path.basename(path), len(got), got[:2], len(want), want[:2]))
        if SEP_A in remainder:
            return bad("validation-chunks", "unexpected extra chunk(s) in stderr: %r" % remainder[:300])
        # order of files in the stream follows the argument order
        order = [p for p, _ in expected_chunks]
        firsts = [err.find(SEP_A + p + SEP_B) for p in order]
        if firsts != sorted(firsts):
            return bad("order", "chunks do not follow the order of the instance list")
    elif mode == "plain-empty":
        # an empty custom format renders every validation error as nothing at all
        ctx.count("validation_chunks_checked", sum(len(e) for _, e in expected_chunks))
        lines = [l for l in err.split("\n") if l.strip()]
        if len(lines) != len(load_bad):
            return bad("validation-chunks", "--error-format '' but stderr has %d line(s) for %d load diagnostic(s): %r" % (
                len(lines), len(load_bad), err[:300]))
        remainder = err
    elif mode == "plain-default":
        due = collections.Counter("{error.instance}: {error.message}\n".format(error=e) for path, errs in expected_chunks for e in errs)
        for chunk, times in due.items():
            ctx.count("validation_chunks_checked", times)
            if err.count(chunk) < times:
                return bad("validation-chunks", "default-format chunk %r is in stderr %d time(s), the library reports it %d time(s)" % (
                    chunk[:200], err.count(chunk), times))
        nlines = sum(len(errs) for _, errs in expected_chunks)
        lines = [l for l in err.split("\n") if l.strip()]
        if len(lines) < nlines + len(load_bad):
            return bad("validation-chunks", "stderr has %d lines, expected at least %d" % (len(lines), nlines + len(load_bad)))
        remainder = err
    else:
        bl = blocks(err, "pretty")
        for path, errs in expected_chunks:
            mine = [b for b in bl if "===(%s)===" % path in b.split("\n", 1)[0]]
            ctx.count("validation_chunks_checked", len(errs))
            if len(mine) != len(errs):
                return bad("validation-chunks", "%s: %d pretty block(s), library reports %d error(s)" % (os.path.basename(path), len(mine), len(errs)))
            kind = "SchemaError" if path == sp else "ValidationError"
            for b in mine:
                if not b.startswith("===[%s]===" % kind):
                    return bad("validation-chunks", "block header %r is not a %s block" % (b.split("\n", 1)[0], kind))
            for e in errs:
                if not any(e.message in b for b in mine):
                    return bad("validation-chunks", "no pretty block carries the message %r" % e.message[:100])
        remainder = "".join(b + PRETTY_RULE + "\n" for b in bl if not any("===(%s)===" % p in b.split("\n", 1)[0] for p, _ in expected_chunks))
    # ---- stderr: load diagnostics (one block / line mentioning each bad path; wording free)
    rb = blocks(remainder, "pretty" if mode == "pretty" else "plain")
    for path, times in load_count.items():
        ctx.count("load_diagnostics_checked", times)
        n = sum(1 for b in rb if path in b)
        if n != times:
            return bad("load-diagnostic", "%d diagnostic(s) mention %s, expected exactly %d (one per listing)" % (n, os.path.basename(path), times))
    if stdin_mode and process_instances and insts and insts[0][1] == "notjson":
        ctx.count("load_diagnostics_checked")
        if not any("<stdin>" in b for b in rb):
            return bad("load-diagnostic", "no diagnostic mentions <stdin>")
    if not process_instances:
        # nothing about any instance may appear when the schema could not be used
        for path, st, val in insts:
            if path in err or path in out:
                return bad("instance-processed-after-schema-failure", "%s mentioned although the schema failed" % os.path.basename(path))
    else:
        # every listed instance is processed no matter what happened before it
        for path, st, val in insts:
            if stdin_mode:
                continue
            mentioned = path in err or path in out
            # the default plain format does not name the file of a validation error (its chunks were checked above)
            has_errors = any(p == path for p, _ in expected_chunks)
            should = st in ("missing", "notjson") or (has_errors and mode not in ("plain-default", "plain-empty")) or (mode == "pretty")
            if should and not mentioned:
                return bad("instance-not-processed", "%s (%s) left no trace" % (os.path.basename(path), st))


def one(ctx, root, rng, n, schema_state, inst_states, mode, validator_opt=None, draft_kw=None, base_uri=False,
        stdin_mode=False, subprocess_too=False, schema_obj=None, repeats=0):
    ACTIVE["format"] = CUSTOM_FORMAT
    if mode == "plain-custom" and schema_state == "valid" and schema_obj is None and not base_uri and not validator_opt and not draft_kw \
            and rng.random() < 0.5:
        ACTIVE["format"] = CUSTOM_FORMAT_INDEXED
        schema_obj = SCHEMA_TITLED
        ctx.count("indexed_error_formats")
    fx = Fixture(root, rng, n)
    try:
        sp, sval, insts = build(fx, rng, schema_state, inst_states, schema_obj=schema_obj, draft_kw=draft_kw)
        argv = []
        stdin_text = None
        if stdin_mode:
            st = inst_states[0]
            val = rng.choice(VALID) if st == "valid" else INVALID[rng.choice([1, 2, 4, 6, 8, 9, 10])]
            # (not JSON: a fragment - or nothing at all, or only white space)
            stdin_text = json.dumps(val) if st in ("valid", "invalid") else rng.choice(["{nope", "", "   \n", "\t", "\n\n"] + TRAILING_GARBAGE[:4])
            if st == "notjson" and not stdin_text.strip():
                ctx.count("blank_stdin_fixtures")
            insts = [("<stdin>", st, val if st in ("valid", "invalid") else None)]
        else:
            if repeats and insts:
                # the same path listed again (a listing is processed, not a file): copies go anywhere after nothing in particular
                pr = random.Random(n * 7919 + repeats)
                for _ in range(repeats):
                    insts.insert(pr.randrange(len(insts) + 1), insts[pr.randrange(len(insts))])
                ctx.count("fixtures_with_a_path_listed_again")
                ctx.count("repeated_listing_of:" + "+".join(sorted({st for p, st, v in insts if sum(1 for q in insts if q[0] == p) > 1})))
            for p, st, v in insts:
                argv += ["-i", p]
        if mode == "plain-custom":
            argv += ["--error-format", ACTIVE["format"]]
        elif mode == "plain-empty":
            argv += ["--error-format", ""]
        elif mode == "pretty":
            argv += ["--output", "pretty"]
        elif rng.random() < 0.5:
            argv += ["-o", "plain"]
        cls_opt = None
        if validator_opt:
            argv += ["--validator", validator_opt]
            cls_opt = getattr(jsonschema, validator_opt.split(".")[-1])
        buri = None
        if base_uri:
            os.makedirs(os.path.join(fx.dir, "sub"), exist_ok=True)
            with open(os.path.join(fx.dir, "sub", "part.json"), "w") as f:
                json.dump({"definitions": {"x": {"type": "integer"}}}, f)
            buri = "file://" + fx.dir + "/"
            argv += ["--base-uri", buri]
        argv.append(sp)
        case = {"argv": [a.replace(fx.dir, "<dir>") for a in argv], "schema_state": schema_state, "schema": sval,
                "instances": [[os.path.basename(p), st, v] for p, st, v in insts], "mode": mode, "stdin": stdin_text}
        ctx.count("fixtures")
        ctx.count("mode:" + mode)
        ctx.case(case, nontrivial=bool(insts) or schema_state != "valid")
        if stdin_mode:
            ctx.count("stdin_fixtures")
        if base_uri:
            ctx.count("base_uri_fixtures")
        if validator_opt or draft_kw:
            ctx.count("validator_option_fixtures")
        sts = [s for _, s, _ in insts]
        if len(sts) >= 2 and sts[-1] == "valid" and any(s != "valid" for s in sts[:-1]) and schema_state == "valid":
            ctx.count("fixtures_last_valid_earlier_bad")
        try:
            res = run_inprocess(list(argv), stdin_text)
        except SystemExit as e:
            ctx.violation("cli-exited", case, "SystemExit(%r) from cli.run/parse_args" % (e.code,))
            return
        except Exception as e:
            ctx.violation("cli-raised", case, "%s: %s" % (type(e).__name__, str(e)[:200]))
            return
        check(ctx, case, argv, mode, sp, schema_state, sval, insts, cls_opt, buri, res, stdin_mode=stdin_mode)
        if subprocess_too:
            ctx.count("subprocess_runs")
            try:
                res2 = run_subprocess(list(argv), stdin_text)
            except subprocess.TimeoutExpired:
                ctx.count("subprocess_timeout_inconclusive")
                return
            check(ctx, case, argv, mode, sp, schema_state, sval, insts, cls_opt, buri, res2, stdin_mode=stdin_mode, via="subprocess")
            if res2[0] != res[0] or res2[1] != res[1] or sorted(res2[2].split("\n")) != sorted(res[2].split("\n")):
                # parse errors carry tracebacks in pretty mode whose frames differ between entry points
                if mode != "pretty":
                    ctx.violation("subprocess-differs", case, "python -m jsonschema: exit %r, in-process: exit %r; streams differ" % (res2[0], res[0]))
    finally:
        shutil.rmtree(fx.dir, ignore_errors=True)


STATES = ["missing", "notjson", "invalid", "valid"]
MODES = ["plain-custom", "plain-default", "pretty"]
ALL_MODES = MODES + ["plain-empty"]


def run(ctx):
    impl.quiet()
    root = tempfile.mkdtemp(prefix="vf_c19_")
    tripwire.allow_writes_under(root)
    try:
        rr = random.Random(1919)
        n = 0
        idx = 0
        # exhaustive: all state vectors for up to 3 instances x schema states x modes
        for sst in STATES:
            for k in range(0, 4):
                for vec in itertools.product(STATES, repeat=k):
                    for mode in MODES:
                        idx += 1
                        if not ctx.mine(idx):
                            continue
                        if sst != "valid" and k > 1 and mode == "plain-default":
                            continue
                        n += 1
                        ctx.count("fixtures_exhaustive_vectors")
                        if k == 0:
                            # no -i at all: the one instance is read from stdin
                            one(ctx, root, rr, n, sst, [rr.choice(["valid", "invalid", "notjson"])], mode, stdin_mode=True)
                        else:
                            one(ctx, root, rr, n, sst, list(vec), mode, subprocess_too=(idx % 97 == 0))
        # long instance lists (a status that counts failures wraps around at 256)
        for k_long, lead in ((255, ["invalid"]), (256, []), (256, ["valid"]), (257, []), (512, []), (255, ["notjson"]), (128, ["missing"] * 128)):
            for mode in ("plain-default", "pretty"):
                idx += 1
                if not ctx.mine(idx):
                    continue
                n += 1
                ctx.count("fixtures_long_lists")
                kind = "missing" if (idx % 2) else "notjson"
                one(ctx, root, rr, n, "valid", lead + [kind] * k_long, mode, subprocess_too=(k_long == 256 and not lead))
        # the same path listed more than once: every listing is processed (all single states and pairs, every mode, in- and out-of-process)
        for vec in [(a,) for a in STATES] + list(itertools.product(STATES, repeat=2)) + [("valid", "invalid", "missing", "notjson")]:
            for mode in ALL_MODES:
                for reps in (1, 2, 3):
                    idx += 1
                    if not ctx.mine(idx):
                        continue
                    n += 1
                    one(ctx, root, rr, n, "valid", list(vec), mode, repeats=reps, subprocess_too=(idx % 29 == 0))
        rng = ctx.rng
        for i in range(ctx.scale(450, 4000)):
            n += 1
            k = rng.randrange(2, 7)
            vec = [rng.choice(STATES) for _ in range(k)]
            if rng.random() < 0.4:
                vec[-1] = "valid"
            if rng.random() < 0.15:
                vec = ["valid"] * k
            mode = rng.choice(ALL_MODES)
            r = rng.random()
            if r < 0.2:
                vopt = rng.choice(["Draft3Validator", "Draft4Validator", "jsonschema.Draft6Validator", "jsonschema.validators.Draft7Validator"])
                obj = None
                if rng.random() < 0.5:
                    # a schema that names itself (under the selected draft's identifier keyword) and refers into itself
                    idkw = "id" if ("Draft3" in vopt or "Draft4" in vopt) else "$id"
                    obj = {idkw: "http://vf.example/c19/own-%d.json" % (n % 3), "definitions": {"n": {"type": "string"}, "i": {"type": "integer"}},
                           "properties": {"a": {"$ref": "#/definitions/i"}, "b": {"$ref": "#/definitions/n"}, "c": {"maxLength": 1}},
                           "required": ["p", "q"]}
                    if "Draft3" in vopt:
                        del obj["required"]
                    ctx.count("self_named_schema_with_local_references")
                one(ctx, root, rng, n, "valid", vec, mode, validator_opt=vopt, schema_obj=obj, subprocess_too=(i % 41 == 0))
            elif r < 0.30:
                # an explicit --validator wins over a $schema naming another draft (on schemas the two drafts read differently)
                dv, ds = rng.sample(impl.DRAFTS, 2)
                obj = rng.choice([
                    {"properties": {"a": {"type": "integer"}}, "minimum": 1, "exclusiveMinimum": True},
                    {"properties": {"a": {"const": "check"}, "b": {"type": "string"}}, "required": ["p"]},
                    {"properties": {"a": {"type": "integer"}, "p": {"required": True}}},
                    {"properties": {"a": {"type": "integer"}}, "exclusiveMinimum": 0},
                    {"properties": {"a": {"type": "integer"}, "b": {"type": "string"}, "c": {"maxLength": 1}}, "required": ["p", "q"]},
                ])
                ctx.count("validator_vs_dollar_schema_fixtures")
                one(ctx, root, rng, n, "valid", vec, mode, validator_opt="Draft%dValidator" % dv, draft_kw=impl.META_ID[ds],
                    schema_obj=obj, subprocess_too=(i % 43 == 0))
            elif r < 0.35:
                d = rng.choice(impl.DRAFTS)
                one(ctx, root, rng, n, "valid", vec, mode, draft_kw=impl.META_ID[d],
                    schema_obj={"properties": {"a": {"type": "integer"}, "b": {"type": "string"}, "c": {"maxLength": 1}},
                                "minimum": 1, "exclusiveMinimum": True} if d <= 4 else None)
            elif r < 0.5:
                one(ctx, root, rng, n, "valid", vec, mode, base_uri=True,
                    schema_obj={"definitions": {"n": {"type": "string"}},
                                "properties": {"a": {"$ref": "sub/part.json#/definitions/x"}, "b": {"$ref": "#/definitions/n"},
                                               "c": {"maxLength": 1}}, "required": ["p", "q"]},
                    subprocess_too=(i % 37 == 0))
            elif r < 0.62:
                one(ctx, root, rng, n, rng.choice(["valid", "valid", "invalid"]), [rng.choice(["valid", "invalid", "notjson"])], mode,
                    stdin_mode=True, subprocess_too=(i % 23 == 0))
            else:
                one(ctx, root, rng, n, rng.choice(STATES + ["valid", "valid"]), vec, mode, subprocess_too=(i % 31 == 0),
                    repeats=(i % 3 == 0) * (1 + i % 2))
        ctx.sample({"argv": ["-i", "<dir>/inst_invalid_2.json", "-i", "<dir>/inst_valid_3.json", "--error-format", "<custom>", "<dir>/schema_valid_1.json"],
                    "states": ["invalid", "valid"], "mode": "plain-custom"})
    finally:
        shutil.rmtree(root, ignore_errors=True)


def replay(ctx, rec):
    impl.quiet()
    c = rec["case"]
    root = tempfile.mkdtemp(prefix="vf_c19_")
    try:
        rr = random.Random(1)
        first = {}
        for name, s, _ in c["instances"]:
            first.setdefault(name, s)
        states = list(first.values())
        for k in range(20):
            one(ctx, root, rr, k, c["schema_state"], states, c["mode"], stdin_mode=c.get("stdin") is not None,
                repeats=len(c["instances"]) - len(states))
    finally:
        shutil.rmtree(root, ignore_errors=True)
