"""CLI: python -m vf.check <Cxx> [--tier quick|thorough] [--replay file] [--seed N]

Exit status: 0 held (or only known findings), 1 violation, 2 inconclusive.
"""
import argparse
import importlib
import json
import os
import shutil
import subprocess
import sys
import tempfile
import time

from vf import util
from vf.util import VERIF_DIR, jdump, sha

EVIDENCE_DIR = os.path.join(VERIF_DIR, "evidence")
REPLAY_DIR = os.path.join(VERIF_DIR, "replays")
KNOWN = os.path.join(VERIF_DIR, "known_findings.json")


def load_known(prop):
    try:
        with open(KNOWN) as f:
            data = json.load(f)
    except FileNotFoundError:
        return {}
    out = {}
    for e in data.get("findings", []):
        if e.get("property") == prop and e.get("status") == "open":
            out[e["key"]] = e
    return out


def worker_env():
    env = dict(os.environ)
    env["PYTHONHASHSEED"] = "0"
    env["PYTHONDONTWRITEBYTECODE"] = "1"
    repo = util.repo_dir()
    pp = [VERIF_DIR]
    if os.path.realpath(repo) != "/repo":
        pp.append(repo)   # scratch copy of the repository precedes the editable install
    if env.get("PYTHONPATH"):
        pp.append(env["PYTHONPATH"])
    env["PYTHONPATH"] = os.pathsep.join(pp)
    env["VERIF_REPO"] = repo
    return env


def run_workers(prop, tier, seed, nshards, maxpar, replay=None, timeout=None):
    tmpd = tempfile.mkdtemp(prefix="vf_%s_" % prop)
    env = worker_env()
    pending = list(range(nshards))
    running = {}
    results = {}
    failures = []
    deadline = time.time() + (timeout or (1500 if tier == "quick" else 4 * 3600))
    try:
        while pending or running:
            while pending and len(running) < maxpar:
                sh = pending.pop(0)
                out = os.path.join(tmpd, "r%d.json" % sh)
                cmd = [sys.executable, "-m", "vf.worker", prop, tier, str(seed), str(sh), str(nshards), out]
                if replay:
                    cmd.append(replay)
                log = open(os.path.join(tmpd, "r%d.log" % sh), "w")
                p = subprocess.Popen(cmd, env=env, cwd=VERIF_DIR, stdout=log, stderr=subprocess.STDOUT)
                running[sh] = (p, out, log)
            time.sleep(0.05)
            for sh in list(running):
                p, out, log = running[sh]
                rc = p.poll()
                if rc is None:
                    if time.time() > deadline:
                        p.kill()
                        p.wait()
                        log.close()
                        failures.append("shard %d: wall-clock watchdog" % sh)
                        del running[sh]
                    continue
                log.close()
                del running[sh]
                if rc != 0 or not os.path.exists(out):
                    with open(log.name) as f:
                        tail = f.read()[-1500:]
                    failures.append("shard %d: worker exit %s: %s" % (sh, rc, tail))
                    continue
                with open(out) as f:
                    results[sh] = json.load(f)
    finally:
        for sh, (p, out, log) in running.items():
            p.kill()
        shutil.rmtree(tmpd, ignore_errors=True)
    return results, failures


def merge(results):
    import collections
    counters = collections.Counter()
    hashes = set()
    samples = []
    violations = []
    buckets = collections.Counter()
    evaluations = 0
    notes = {}
    trip = []
    errors = []
    lines = set()
    for sh in sorted(results):
        r = results[sh]
        lines.update((b, l) for b, q, l in r.get("lines", []))
        evaluations += r["evaluations"]
        counters.update(r["counters"])
        hashes.update(r["hashes"])
        for s in r["samples"]:
            if len(samples) < 8:
                samples.append(s)
        violations.extend(r["violations"])
        for k, m, n in r["viol_buckets"]:
            buckets[(k, m)] += n
        for k, v in r.get("notes", {}).items():
            notes.setdefault(k, v)
        trip.extend(r.get("tripwire", []))
        if r.get("status") != "ok":
            errors.append("shard %d: %s" % (sh, r.get("error")))
    return dict(counters=counters, hashes=hashes, samples=samples, violations=violations,
                buckets=buckets, evaluations=evaluations, notes=notes, tripwire=trip, errors=errors, lines=lines)


def code_reached(prop, lines):
    """Which statements of the files the property is anchored in were executed while the monitors were watching
    (LINE events of sys.monitoring in every worker and forked child).  Reported, never used for the verdict."""
    from vf.obs.monitor import statement_map
    files = None
    try:
        with open(os.path.join(VERIF_DIR, "properties.jsonl")) as f:
            for ln in f:
                d = json.loads(ln)
                if d["id"] == prop:
                    files = [os.path.basename(x) for x in d["anchors"]["files"] if x.endswith(".py")]
    except Exception:
        pass
    smap = statement_map()
    out = {}
    for base in sorted(smap):
        hit = {l for b, l in lines if b == base}
        if not hit or (files is not None and base not in files):
            continue
        funcs = smap[base]
        total = sum(len(v) for v in funcs.values())
        reached = sum(len(v & hit) for v in funcs.values())
        entered = {q: v for q, v in funcs.items() if v & hit}
        partial = {q: sorted(v - hit) for q, v in sorted(entered.items()) if v - hit}
        out[base] = {"statements_in_functions": total, "reached": reached,
                     "functions_entered": len(entered), "functions_total": len(funcs),
                     "functions_never_entered": sorted(q for q, v in funcs.items() if v and not (v & hit)),
                     "unreached_lines_in_entered_functions": partial}
    return out


def write_evidence(mod, prop, tier, seed, m, wall, nviol, extra):
    os.makedirs(EVIDENCE_DIR, exist_ok=True)
    cov = {
        "evaluations": int(m["evaluations"]),
        "distinct_nontrivial": len(m["hashes"]),
        "rule": mod.RULE,
        "samples": m["samples"],
        "counters": {k: m["counters"][k] for k in sorted(m["counters"])},
        "floors": extra.get("floors", {}),
        "floors_missed": extra.get("missed", []),
        "known_findings_hit": extra.get("known_hit", []),
        "verdict": extra.get("verdict"),
        "notes": m["notes"],
        "code_reached": code_reached(prop, m.get("lines", set())),
        "exhaustive": False,
    }
    if getattr(mod, "EXHAUSTIVE_NOTE", None):
        cov["exhaustive_subspaces"] = mod.EXHAUSTIVE_NOTE
    ev = {
        "property_id": prop,
        "tier": tier,
        "seed": seed,
        "level": mod.LEVEL,
        "coverage": cov,
        "assumptions": list(getattr(mod, "ASSUMPTIONS", [])),
        "wall_s": round(wall, 2),
        "violations": nviol,
    }
    path = os.path.join(EVIDENCE_DIR, "%s.json" % prop)
    tmp = path + ".tmp"
    with open(tmp, "w") as f:
        f.write(json.dumps(ev, ensure_ascii=False, indent=1, default=repr))
    os.replace(tmp, path)
    return path


def main(argv=None):
    ap = argparse.ArgumentParser()
    ap.add_argument("prop")
    ap.add_argument("--tier", default=os.environ.get("VERIF_TIER", "quick"), choices=["quick", "thorough"])
    ap.add_argument("--seed", type=int, default=int(os.environ.get("VERIF_SEED", "0") or 0))
    ap.add_argument("--replay")
    ap.add_argument("--jobs", type=int, default=int(os.environ.get("VERIF_JOBS", "0") or 0))
    ap.add_argument("--no-evidence", action="store_true")
    args = ap.parse_args(argv)
    prop = args.prop.upper()
    mod = importlib.import_module("vf.props." + prop.lower())
    t0 = time.time()

    if args.replay:
        results, failures = run_workers(prop, args.tier, args.seed, 1, 1, replay=os.path.abspath(args.replay))
        m = merge(results)
        for f in failures + m["errors"]:
            print("INCONCLUSIVE property=%s reason=%s" % (prop, f))
        for v in m["violations"]:
            print("REPLAY-VIOLATION property=%s kind=%s mech=%s detail=%s" % (prop, v["kind"], v["mech"], v["detail"]))
        if failures or m["errors"]:
            return 2
        if m["violations"]:
            return 1
        print("REPLAY-OK property=%s (no violation reproduced)" % prop)
        return 0

    nshards = mod.shards(args.tier)
    maxpar = args.jobs or (min(8, nshards) if args.tier == "quick" else min(16, nshards))
    results, failures = run_workers(prop, args.tier, args.seed, nshards, maxpar)
    m = merge(results)
    wall = time.time() - t0

    known = load_known(prop)
    known_hit = {}
    unknown = []
    for v in m["violations"]:
        if v["mech"] and v["mech"] in known:
            known_hit.setdefault(v["mech"], v)
        else:
            unknown.append(v)
    # buckets may contain mechs whose witnesses were capped away
    for (kind, mech), n in m["buckets"].items():
        if not (mech and mech in known) and not any(u["kind"] == kind and u["mech"] == mech for u in unknown):
            unknown.append({"kind": kind, "mech": mech, "detail": "witness capped", "case": None})

    inconclusive = list(failures) + m["errors"]
    expected = set(getattr(mod, "TRIPWIRE_EXPECTED", ()))
    unexpected = [e for e in m["tripwire"] if e["event"] not in expected]
    m["counters"]["tripwire_events_expected"] = len(m["tripwire"]) - len(unexpected)
    if unexpected:
        inconclusive.append("unexpected tripwire events (network/file writes) in harness: %s" % unexpected[:3])
    floors = mod.floors(args.tier) if hasattr(mod, "floors") else {}
    missed = []
    for k, want in sorted(floors.items()):
        got = len(m["hashes"]) if k == "distinct_nontrivial" else (
            m["evaluations"] if k == "evaluations" else m["counters"].get(k, 0))
        if got < want:
            missed.append("%s=%d<%d" % (k, got, want))
    if missed and not unknown:
        inconclusive.append("non-vacuity floors missed: " + ", ".join(missed))

    if unknown:
        verdict = "violated"
    elif inconclusive:
        verdict = "inconclusive"
    elif known_hit:
        verdict = "held-except-known-findings"
    else:
        verdict = "held"

    nviol = sum(n for (k, mm), n in m["buckets"].items())
    if not args.no_evidence:
        write_evidence(mod, prop, args.tier, args.seed, m, wall, nviol,
                       dict(floors=floors, missed=missed, known_hit=sorted(known_hit), verdict=verdict))

    print("%s tier=%s seed=%d shards=%d evaluations=%d distinct_nontrivial=%d wall=%.1fs verdict=%s" % (
        prop, args.tier, args.seed, nshards, m["evaluations"], len(m["hashes"]), wall, verdict))
    interesting = getattr(mod, "REPORT_COUNTERS", None)
    if interesting:
        print("  observed: " + ", ".join("%s=%d" % (k, m["counters"].get(k, 0)) for k in interesting))

    esc = ["%s=%d" % (k, n) for k, n in sorted(m["counters"].items()) if k.startswith("escaped:")]
    if esc:
        print("  escaped exceptions: " + ", ".join(esc))
    for key, v in sorted(known_hit.items()):
        e = known[key]
        n = sum(c for (k, mm), c in m["buckets"].items() if mm == key)
        print("KNOWN-FINDING: property=%s %s [%s; seen %d times this run; e.g. %s]" % (
            prop, e["mechanism"], key, n, util.short(v["case"], 200)))
    rc = 0
    if unknown:
        os.makedirs(os.path.join(REPLAY_DIR, prop), exist_ok=True)
        seen = set()
        for v in unknown[:10]:
            rec = {"property": prop, "kind": v["kind"], "mech": v["mech"], "detail": v["detail"], "case": v["case"]}
            name = sha(jdump(rec))
            if name in seen:
                continue
            seen.add(name)
            path = os.path.join(REPLAY_DIR, prop, name + ".json")
            with open(path, "w") as f:
                f.write(json.dumps(rec, ensure_ascii=False, indent=1, default=repr))
            print("VIOLATION property=%s replay=%s" % (prop, path))
            print("  kind=%s mech=%s detail=%s" % (v["kind"], v["mech"], util.short(v["detail"], 400)))
            print("  case=%s" % util.short(v["case"], 600))
        rc = 1
    elif inconclusive:
        for r in inconclusive:
            print("INCONCLUSIVE property=%s reason=%s" % (prop, util.short(r, 1500)))
        rc = 2
    return rc


if __name__ == "__main__":
    sys.exit(main())
