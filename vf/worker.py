"""One worker process: python -m vf.worker <prop> <tier> <seed> <shard> <nshards> <outfile> [replayfile]"""
import faulthandler
import importlib
import json
import os
import sys
import traceback


def main(argv):
    prop, tier, seed, shard, nshards, out = argv[:6]
    replay = argv[6] if len(argv) > 6 else None
    seed, shard, nshards = int(seed), int(shard), int(nshards)
    sys.setrecursionlimit(3000)
    watchdog = int(os.environ.get("VERIF_WATCHDOG_S", "900" if tier == "quick" else "7200"))
    faulthandler.dump_traceback_later(watchdog, exit=True)

    from vf import util
    from vf.obs import tripwire
    tripwire.install()
    util.assert_repo_module()

    from vf.obs import monitor
    cov = monitor.shared_coverage()

    from vf.ctx import Ctx, Stop
    mod = importlib.import_module("vf.props." + prop.lower())
    ctx = Ctx(prop, tier, seed, shard, nshards)
    status = "ok"
    err = None
    try:
        if replay:
            with open(replay) as f:
                rec = json.load(f)
            ctx.replay = rec
            mod.replay(ctx, rec)
        else:
            mod.run(ctx)
    except Stop:
        pass
    except BaseException:
        status = "harness_error"
        err = traceback.format_exc()
    res = ctx.result()
    res["status"] = status
    res["error"] = err
    res["tripwire"] = tripwire.events()
    res["lines"] = sorted([b, q, l] for (b, q, l) in cov.hit)
    tmp = out + ".tmp"
    with open(tmp, "w") as f:
        try:
            f.write(json.dumps(res, default=repr))
        except ValueError:
            f.write(json.dumps(util._tame(res), default=util._default))
    os.replace(tmp, out)
    faulthandler.cancel_dump_traceback_later()
    return 0


if __name__ == "__main__":
    sys.exit(main(sys.argv[1:]))
