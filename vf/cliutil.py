"""The command line as one more entry point: schema and instance written to a scratch directory and read back by the
CLI's own loader, the class given with --validator; runs in-process through cli.run(cli.parse_args(argv))."""
import io
import json
import os
import shutil
import tempfile


class Scratch:
    def __init__(self, prefix="vf_cli_"):
        self.dir = tempfile.mkdtemp(prefix=prefix)
        self.n = 0

    def close(self):
        shutil.rmtree(self.dir, ignore_errors=True)

    def run_stdin(self, draft, schema, instance_text):
        """The instance handed over on standard input (no -i)."""
        from jsonschema import cli
        self.n += 1
        sp = os.path.join(self.dir, "s%d.json" % self.n)
        with open(sp, "w") as f:
            json.dump(schema, f)
        out, err = io.StringIO(), io.StringIO()
        try:
            code = cli.run(cli.parse_args(["-V", "jsonschema.Draft%dValidator" % draft, sp]), stdout=out, stderr=err, stdin=io.StringIO(instance_text))
        except BaseException as e:
            code = "exc:%s: %s" % (type(e).__name__, str(e)[:80])
        try:
            os.remove(sp)
        except OSError:
            pass
        return code, err.getvalue()

    def run(self, draft, schema, instances, extra_args=()):
        """-> (exit status or 'exc:Name', stderr text).  Raises ValueError when something is not JSON-serialisable."""
        from jsonschema import cli
        self.n += 1
        sp = os.path.join(self.dir, "s%d.json" % self.n)
        with open(sp, "w") as f:
            json.dump(schema, f)
        argv = []
        paths = []
        for k, inst in enumerate(instances):
            ip = os.path.join(self.dir, "i%d_%d.json" % (self.n, k))
            with open(ip, "w") as f:
                json.dump(inst, f)
            argv += ["-i", ip]
            paths.append(ip)
        argv += ["-V", "jsonschema.Draft%dValidator" % draft] + list(extra_args) + [sp]
        out, err = io.StringIO(), io.StringIO()
        try:
            code = cli.run(cli.parse_args(argv), stdout=out, stderr=err)
        except BaseException as e:
            code = "exc:%s: %s" % (type(e).__name__, str(e)[:80])
        for p in paths + [sp]:
            try:
                os.remove(p)
            except OSError:
                pass
        return code, err.getvalue()
