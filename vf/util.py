"""Small shared helpers: canonical JSON, hashing, environment."""
import hashlib
import json
import os
import sys

VERIF_DIR = os.path.dirname(os.path.dirname(os.path.abspath(__file__)))


def repo_dir():
    return os.path.abspath(os.environ.get("VERIF_REPO", "/repo"))


_LIMIT_BITS = 13000          # ~3900 decimal digits: below the interpreter's default limit for int -> str (4300 digits)


def _tame(obj):
    """A copy in which integers too long for the interpreter's int->str conversion are replaced by a description
    (the harness must not raise - nor lift - that limit itself: it is part of what the library runs under)."""
    if isinstance(obj, bool):
        return obj
    if isinstance(obj, int):
        if obj.bit_length() > _LIMIT_BITS:
            return "<integer of %d bits, low 64 bits %x%s>" % (obj.bit_length(), abs(obj) & (2 ** 64 - 1), ", negative" if obj < 0 else "")
        return obj
    if isinstance(obj, dict):
        return {k: _tame(v) for k, v in obj.items()}
    if isinstance(obj, (list, tuple)):
        return [_tame(v) for v in obj]
    return obj


def jdump(obj):
    """JSON text keeping key order, int/float distinction, non-ASCII."""
    try:
        return json.dumps(obj, ensure_ascii=False, default=_default)
    except ValueError:
        return json.dumps(_tame(obj), ensure_ascii=False, default=_default)


def _default(o):
    if isinstance(o, (set, frozenset)):
        return sorted(o, key=repr)
    if isinstance(o, tuple):
        return list(o)
    if isinstance(o, bytes):
        return o.decode("latin-1")
    try:
        return repr(o)
    except ValueError:
        return "<%s whose repr exceeds the integer conversion limit>" % type(o).__name__


def h64(obj):
    if not isinstance(obj, str):
        obj = jdump(obj)
    return int.from_bytes(
        hashlib.blake2b(obj.encode("utf-8", "surrogatepass"), digest_size=8).digest(), "big")


def sha(obj):
    if not isinstance(obj, str):
        obj = jdump(obj)
    return hashlib.sha1(obj.encode("utf-8", "surrogatepass")).hexdigest()[:16]


def assert_repo_module():
    """The jsonschema under test must be the one in $VERIF_REPO."""
    import jsonschema
    here = os.path.realpath(os.path.dirname(jsonschema.__file__))
    want = os.path.realpath(os.path.join(repo_dir(), "jsonschema"))
    if here != want:
        raise SystemExit("INCONCLUSIVE harness: jsonschema imported from %s, wanted %s" % (here, want))
    return jsonschema


def jtype(x):
    if x is None:
        return "null"
    if isinstance(x, bool):
        return "boolean"
    if isinstance(x, int):
        return "integer"
    if isinstance(x, float):
        return "number"
    if isinstance(x, str):
        return "string"
    if isinstance(x, list):
        return "array"
    if isinstance(x, dict):
        return "object"
    return type(x).__name__


def short(obj, n=300):
    s = obj if isinstance(obj, str) else jdump(obj)
    return s if len(s) <= n else s[:n] + "...(%d chars)" % len(s)


def eprint(*a):
    print(*a, file=sys.stderr)
