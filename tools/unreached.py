#!/usr/bin/env python3
"""Dev aid: prints, per property, the statements of the files it is anchored in that no worker (or forked child)
executed during the run that wrote evidence/<id>.json - with their source text.  usage: tools/unreached.py [Cxx ...]"""
import json, os, sys
HERE = os.path.dirname(os.path.dirname(os.path.abspath(__file__)))
REPO = os.environ.get("VERIF_REPO", "/repo")
ids = sys.argv[1:] or [l.strip() for l in open(os.path.join(HERE, "tools", "claimed.txt")) if l.strip()]
src = {}
for i in ids:
    p = os.path.join(HERE, "evidence", "%s.json" % i)
    if not os.path.exists(p):
        continue
    cr = json.load(open(p))["coverage"].get("code_reached", {})
    print("==", i)
    for f, v in cr.items():
        print("  %s: %d/%d statements, %d/%d functions" % (f, v["reached"], v["statements_in_functions"], v["functions_entered"], v["functions_total"]))
        if f not in src:
            src[f] = open(os.path.join(REPO, "jsonschema", f)).read().split("\n")
        for q, lines in v["unreached_lines_in_entered_functions"].items():
            for l in lines:
                print("      %s:%d  %s" % (q, l, src[f][l - 1].strip()[:110]))
        if "-v" in os.environ.get("UNREACHED_FLAGS", ""):
            print("      never entered:", ", ".join(v["functions_never_entered"]))
