#!/usr/bin/env python3
"""Prints the mutation-audit table (markdown) from evidence/mutation_audit.json."""
import json, os
HERE = os.path.dirname(os.path.dirname(os.path.abspath(__file__)))
rows = json.load(open(os.path.join(HERE, "evidence", "mutation_audit.json")))
print("| change | property | baseline tests still pass | quick check | wall | first witness kind |")
print("|---|---|---|---|---|---|")
for r in sorted(rows, key=lambda r: (r.get("property", ""), r["patch"])):
    ck = r.get("checks", {}).get(r.get("property"), {})
    verdict = {1: "**VIOLATION**", 0: "missed", 2: "inconclusive"}.get(ck.get("exit"), "n/a")
    kind = ck.get("first", "").split(" mech=")[0].replace("kind=", "")
    print("| `%s` | %s | %s | %s | %ss | %s |" % (r["patch"].replace("mutants/", "").replace("seeded/", "seeded: ").replace("/patch.diff", ""),
          r.get("property"), {True: "yes", False: "no (also caught by the tests)", None: "-"}[r.get("tests_pass")], verdict, ck.get("wall_s"), kind))
c = sum(1 for r in rows if r.get("checks", {}).get(r.get("property"), {}).get("exit") == 1)
print()
print("%d of %d changes are reported as VIOLATION by the quick check of their property; %d of them leave all 3210 baseline tests passing." % (
    c, len(rows), sum(1 for r in rows if r.get("tests_pass"))))
