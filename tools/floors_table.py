#!/usr/bin/env python3
"""Prints, per claimed property, the non-vacuity floors of its check (quick / thorough): the counters name the workload
families and monitors a run must have exercised, so the list doubles as an inventory of what each check drives.
usage: tools/floors_table.py   (markdown on stdout; tools/update_design_tables.py pastes it into DESIGN.md)"""
import importlib, os, sys
HERE = os.path.dirname(os.path.dirname(os.path.abspath(__file__)))
sys.path.insert(0, HERE)
ids = [l.strip() for l in open(os.path.join(HERE, "tools", "claimed.txt")) if l.strip()]
for i in ids:
    m = importlib.import_module("vf.props." + i.lower())
    q, t = m.floors("quick"), m.floors("thorough")
    names = sorted(set(q) | set(t))
    print("**%s** (%d floors): " % (i, len(names)) + ", ".join(
        "`%s` ≥ %s" % (n, q.get(n, "–") if q.get(n) == t.get(n) else "%s / %s" % (q.get(n, "–"), t.get(n, "–"))) for n in names))
    print()
