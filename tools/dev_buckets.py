"""dev helper: run all shards of a property in-process sequentially (or one shard) and group violations."""
import sys, collections, json, importlib
sys.setrecursionlimit(3000)
from vf.obs import tripwire; tripwire.install()
from vf.ctx import Ctx
prop=sys.argv[1]; tier=sys.argv[2] if len(sys.argv)>2 else 'quick'
shard=int(sys.argv[3]) if len(sys.argv)>3 else 0
mod=importlib.import_module('vf.props.'+prop.lower())
Ctx.MAX_VIOL=100000
ctx=Ctx(prop,tier,0,shard,mod.shards(tier))
import vf.ctx
orig=Ctx.violation
groups=collections.defaultdict(list)
def violation(self,kind,case,detail="",mech=None):
    groups[(kind,mech,str(detail)[:90])].append(case)
Ctx.violation=violation
mod.run(ctx)
for k,v in sorted(groups.items(), key=lambda kv:-len(kv[1])):
    print(len(v),k); 
    for c in v[:3]: print("     ", json.dumps(c,default=repr)[:260])
print({k:v for k,v in ctx.counters.items() if not k.startswith('kwcall')})
