#!/usr/bin/env python3
"""Regenerates /verif/MANIFEST.json from the table below.  A property is
claimed when vf/props/<id>.py exists and is listed in CLAIMED."""
import json
import os

HERE = os.path.dirname(os.path.dirname(os.path.abspath(__file__)))
PY = "/venv/bin/python"

CHECKS = {
    "C01": dict(cat="exploration", tech="runtime reference-model comparator (independent evaluator M vs implementation on generated schema/instance executions)",
                text="Every generated (draft, ref-free schema, instance) execution is judged by an independent executable model of drafts 3/4/6/7 that is re-calibrated on the bundled official suite at each run; exhaustive keyword x JSON-type matrix plus seeded grammar-based exploration (thorough: all keyword pairs). Held-on-observed-executions, not a proof.",
                note="Trusts the model (vf/model/eval.py, own regex matcher, Fraction arithmetic) as calibrated on ~2200 official suite cases; regex subset, exact multipleOf sub-domain and strict-equality delegation as in the property's quantifier."),
    "C02": dict(cat="exploration", tech="runtime metamorphic monitor (extraction transform S0 -> S with $ref) + model cross-check, scope-stack trace",
                text="Reference-free schemas are rewritten into reference-bearing equivalents (definitions, array slots, store documents, handlers, chains, recursion, hostile names, base-URI arrangements); error locations of both executions must coincide and resolvable references must resolve.",
                note="Equivalence by construction of the transform, verified with own RFC 3986/6901 code; issue-371 style targets excluded as the property says."),
    "C03": dict(cat="exploration", tech="runtime exception filter + logical step budget (sys.monitoring PY_START) over metaschema-guided hostile schemas",
                text="All four entry points are driven with anything check_schema lets through (shape mutations guided by the bundled metaschema, huge numbers, odd reference targets); any escaping exception outside the documented set or a step-budget overrun is a violation.",
                note="Interpreter limits bound the inputs (depth <= 12, ints <= 4000 digits); hang = logical-step budget, wall-clock watchdog only yields inconclusive."),
    "C04": dict(cat="exploration", tech="runtime cross-entry-point comparator with access-recording proxies",
                text="is_valid, iter_errors, validate and jsonschema.validate are executed on the same inputs and compared by full fingerprints; SchemaError precedence over instance access is observed with recording proxies.",
                note="Compares the implementation against itself; best_match membership checked structurally."),
    "C05": dict(cat="exploration", tech="runtime metamorphic monitor (schema restriction S|k) on error multisets",
                text="Errors of a schema object are compared with the multiset union of the errors of each keyword standing alone with the siblings it consults, at root and at every nested level reached.",
                note="Implementation against itself under restriction; root-level $ref and refs to '#' excluded because restriction changes what '#' designates."),
    "C06": dict(cat="exploration", tech="runtime per-error navigation checker (instance walker, shape-aware schema walker with $ref hops)",
                text="Every error in the transitive context closure of generated failing validations is navigated from the instance and from the root schema with identity checks.",
                note="Walker knows keyword shapes from the specifications; documented exceptions are explicit branches."),
    "C07": dict(cat="fault_enumeration", tech="runtime history differential + scope-stack trace invariant + deep snapshots under abandonment and call-out faults",
                text="Operation histories on one validator (exhaust/close/drop/throw, failing handlers, direct resolves) are compared op-by-op with fresh validators; resolver scope must be back at quiescence; instance/schema/store snapshots must not change.",
                note="Assumes CPython prompt finalisation of dropped generators, as the property does."),
    "C08": dict(cat="exploration", tech="runtime reference-model comparator (strict JSON equality) over confusable value pairs",
                text="const / enum / uniqueItems verdicts on generated confusable pairs at depth 0-3 are compared with strict JSON equality; the three uniq code paths are observed via sys.monitoring.",
                note="Oracle is vf/model/equal.py."),
    "C09": dict(cat="exploration", tech="runtime reference-model comparator (Fraction arithmetic) + exception filter over hostile number pairs",
                text="All ordered pairs of a hostile number pool are run through minimum/maximum/exclusive*/multipleOf in four drafts and compared with exact rational arithmetic on the exact sub-domain; any exception is a violation.",
                note="Exact sub-domain predicate is a conservative subset of the property's."),
    "C10": dict(cat="exploration", tech="runtime metamorphic monitor (foreign keyword insertion) on error multisets",
                text="Foreign keywords (spec-derived complement of each draft's vocabulary) with would-fail values are inserted at every depth and next to $ref; error multisets must be unchanged.",
                note="Foreign sets written down from the specifications, not read from the implementation."),
    "C11": dict(cat="exploration", tech="runtime reference-model comparator (M evaluating the bundled metaschema) + exception filter",
                text="check_schema outcomes on generated and shape-mutated candidates are compared with the independent model applied to the bundled metaschema file.",
                note="Equality-sensitive candidates delegated to C08."),
    "C12": dict(cat="exploration", tech="runtime plumbing comparator (direct conforms calls, exception identity)",
                text="format keyword behaviour is compared with direct checker calls for all registered names, unknown names, all JSON types, and custom checkers returning odd values or raising listed/unlisted exceptions.",
                note="Uses the checker itself as reference for (b); identity of exception objects for (e)/(f)."),
    "C13": dict(cat="exploration", tech="runtime reference-model comparator (own ipv4/ipv6/date recognisers, re.compile) + exception filter over single-edit neighbourhoods",
                text="Every single-character edit of valid and invalid seeds is fed to every registered format; verdicts compared with independent recognisers, never-raises for all.",
                note="Recognisers calibrated on the suite's optional/format files."),
    "C14": dict(cat="exploration", tech="runtime constructive oracle (own RFC 6901 encoder; identity of addressed object)",
                text="Every reachable location of generated documents with hostile keys is encoded and resolved; unresolvable pointers constructed by class must raise RefResolutionError.",
                note="Own encoder/decoder calibrated on RFC 6901 examples."),
    "C15": dict(cat="fault_enumeration", tech="runtime event-log checker (handler/urlopen call log, store key snapshots) + cross-configuration equality under handler faults",
                text="Histories are replayed under cache configurations and handler fault plans; fetch counts, store growth, exception wrapping and local serving of metaschemas are decided from the call log and audit hook.",
                note="Network is blocked and observed by the harness itself."),
    "C16": dict(cat="exploration", tech="runtime history monitor with recorded probe vectors",
                text="Derivation histories are executed in fresh subprocesses; every object's probe vector is compared with the one recorded at its creation after each later operation.",
                note="Probe battery finite; one subprocess per history because registries are global."),
    "C17": dict(cat="exploration", tech="runtime structure-vs-model checker (dict-of-paths model) over all arrival orders",
                text="ErrorTree built from real validation errors in all permutations (<= 5 errors) or sampled orders is compared with a dict-of-paths model.",
                note="Membership/iteration judged on fresh trees only, as the property says."),
    "C18": dict(cat="fault_enumeration", tech="runtime schedule controller (enumerated next() interleavings) + thread stress with forced preemption and yield injection",
                text="Independent validators built to collide on every shareable cache key are interleaved step by step and run in threads; each must reproduce its solo error sequence.",
                note="CPython GIL with 1us switch interval; no claim for free-threaded builds."),
    "C19": dict(cat="exploration", tech="runtime outcome model + stream parser over CLI fixtures (in-process and subprocess)",
                text="All state vectors of schema/instance files (n<=3) plus sampled longer lists are run through cli.run and python -m jsonschema; exit status and both streams compared with the library's results.",
                note="Load diagnostic wording not pinned, only count and path."),
    "C20": dict(cat="exploration", tech="runtime table + behavioural comparator over registration histories",
                text="validator_for/validate/CLI dispatch is compared with an own id table on draft-disagreement instances, across registration histories in subprocesses.",
                note="$schema values are strings."),
}

THOROUGH_ONLY_QUICK = set()
CLAIMED_FILE = os.path.join(HERE, "tools", "claimed.txt")


def main():
    claimed = [l.strip() for l in open(CLAIMED_FILE) if l.strip() and not l.startswith("#")]
    checks = []
    na = []
    for pid in sorted(CHECKS):
        c = CHECKS[pid]
        if pid in claimed and os.path.exists(os.path.join(HERE, "vf", "props", pid.lower() + ".py")):
            checks.append({
                "property_id": pid,
                "quick_cmd": "%s -m vf.check %s --tier quick" % (PY, pid),
                "thorough_cmd": "%s -m vf.check %s --tier thorough" % (PY, pid),
                "evidence_file": "/verif/evidence/%s.json" % pid,
                "replay_cmd_template": "%s -m vf.check %s --replay {path}" % (PY, pid),
                "engine": "vf",
                "level_claimed": {"category": c["cat"], "text": c["text"], "design_ref": "DESIGN.md section 3, " + pid},
                "level_note": c["note"],
                "technique": c["tech"],
            })
        else:
            na.append({"property_id": pid, "reason": "check not yet built in this revision of /verif (planned: %s)" % c["tech"]})
    man = {
        "version": 1,
        "setup_cmd": "%s -m vf.selftest" % PY,
        "hooks": {
            "guard": "JSONSCHEMA_VERIF",
            "enable": "no source hooks: all instrumentation is attached at run time from /verif (attribute replacement, sys.monitoring, audit hooks); the guard name is reserved and unused",
            "baseline_off_cmd": "cd /repo && /venv/bin/python -m pytest -ra -q -p no:cacheprovider --timeout=900 --continue-on-collection-errors",
            "source_commits": [],
            "add_only": True,
        },
        "engines": [{"name": "vf", "path": "/verif/vf", "serves_properties": [c["property_id"] for c in checks],
                     "kind_free_text": "pure-Python runtime-monitoring framework: workload generators, reference models, run-time wrappers, sys.monitoring probes, fault/schedule injection; runs under /venv/bin/python against /repo's working tree"}],
        "checks": checks,
        "notes": "Exit 0 held / only known findings; exit 1 VIOLATION; exit 2 INCONCLUSIVE (never printed with a VIOLATION line). Checks import jsonschema from /repo's working tree (editable install) so nothing needs rebuilding; VERIF_REPO overrides for mutation audits.",
        "not_applicable": na,
    }
    with open(os.path.join(HERE, "MANIFEST.json"), "w") as f:
        json.dump(man, f, indent=1)
        f.write("\n")
    print("claimed:", [c["property_id"] for c in checks])


if __name__ == "__main__":
    main()
