#!/usr/bin/env python3
"""mkpatch.py <out.patch> <repo-relative-file> <old> <new> [<file> <old> <new> ...]
Builds a unified diff against /repo's current working tree by exact string replacement."""
import difflib, sys
out = sys.argv[1]
args = sys.argv[2:]
chunks = []
files = {}
for i in range(0, len(args), 3):
    f, old, new = args[i:i+3]
    src = files.get(f) or open('/repo/' + f).read()
    files.setdefault(f + '::orig', open('/repo/' + f).read())
    if src.count(old) != 1:
        sys.exit("old text occurs %d times in %s" % (src.count(old), f))
    files[f] = src.replace(old, new)
for f in [k for k in files if not k.endswith('::orig')]:
    a = files[f + '::orig'].splitlines(True); b = files[f].splitlines(True)
    chunks.extend(difflib.unified_diff(a, b, 'a/' + f, 'b/' + f))
open(out, 'w').write(''.join(chunks))
print("wrote", out)
