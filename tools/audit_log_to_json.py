#!/usr/bin/env python3
"""Fallback: rebuilds evidence/mutation_audit.json from the progress lines tools/mutation_audit.py prints (one per
change) when a run had to be cut short before it wrote the file itself.  usage: tools/audit_log_to_json.py <log>"""
import json, os, re, sys
HERE = os.path.dirname(os.path.dirname(os.path.abspath(__file__)))
rows = []
pat = re.compile(r"^(\S+)\s+tests_pass=(\S+)\s+(C\d\d) exit=(\S+) (\S+)s ?(.*)$")
for line in open(sys.argv[1]):
    m = pat.match(line.rstrip("\n"))
    if not m:
        continue
    patch, tp, prop, ex, wall, first = m.groups()
    rows.append({"patch": patch, "property": prop, "tests_pass": {"True": True, "False": False}.get(tp),
                 "checks": {prop: {"exit": int(ex) if ex.lstrip("-").isdigit() else None, "wall_s": float(wall), "first": first}},
                 "note": "rebuilt from the progress log of an audit run that was cut short"})
json.dump(rows, open(os.path.join(HERE, "evidence", "mutation_audit.json"), "w"), indent=1)
print("%d rows" % len(rows))
