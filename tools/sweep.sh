#!/bin/bash
# usage: tools/sweep.sh <tier> <seeds...>   -> one line per (check, seed); never writes evidence
tier="$1"; shift
for seed in "$@"; do
  for i in $(seq -w 1 20); do
    out=$(VERIF_SEED=$seed timeout 7200 /venv/bin/python -m vf.check C$i --tier $tier --no-evidence 2>&1)
    rc=$?
    echo "seed=$seed C$i rc=$rc $(echo "$out" | head -1 | sed 's/.*wall=//')"
    if [ $rc -ne 0 ]; then echo "$out" | grep -E "VIOLATION|INCONCLUSIVE|kind=" | head -5 | cut -c1-300; fi
  done
done
