#!/usr/bin/env python3
"""usage: tools/recheck_seed.py <seed-name> ...  - runs the property's quick check against /repo + seeded/<name>/patch.diff
(scratch copy via tools/with_patch.sh) and records the exit status in the seed's meta.json (used after a check was
strengthened, and when a stored patch had to be rebased onto a repaired tree)."""
import json, os, subprocess, sys
HERE = os.path.dirname(os.path.dirname(os.path.abspath(__file__)))
for name in sys.argv[1:]:
    d = os.path.join(HERE, "seeded", name)
    m = json.load(open(os.path.join(d, "meta.json")))
    p = subprocess.run([os.path.join(HERE, "tools", "with_patch.sh"), os.path.join(d, "patch.diff"), "timeout", "1800", "/venv/bin/python", "-m", "vf.check",
                        m["property"], "--no-evidence"], cwd=HERE, capture_output=True, text=True)
    m["quick_check_exit_against_change_when_collected"] = p.returncode
    json.dump(m, open(os.path.join(d, "meta.json"), "w"), indent=1)
    print(name, "exit", p.returncode, [l for l in p.stdout.splitlines() if "verdict" in l][:1])
