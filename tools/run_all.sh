#!/bin/bash
# usage: tools/run_all.sh [quick|thorough]  - runs every claimed check in /verif against /repo, rewriting evidence/
tier="${1:-quick}"
cd "$(dirname "$0")/.."
rc_all=0
for id in $(cat tools/claimed.txt); do
  out=$(/venv/bin/python -m vf.check $id --tier $tier 2>&1); rc=$?
  echo "$id rc=$rc $(echo "$out" | head -1 | sed 's/.*evaluations=/evaluations=/')"
  echo "$out" | grep -E "^(VIOLATION|INCONCLUSIVE|KNOWN-FINDING)" | cut -c1-200
  [ $rc -ne 0 ] && rc_all=1
done
python3-vt - <<'PY'
import json, glob, jsonschema
s=json.load(open('/root/.vp/EVIDENCE.schema.json'))
bad=0
for f in sorted(glob.glob('/verif/evidence/C*.json')):
    try: jsonschema.validate(json.load(open(f)), s)
    except Exception as e: print("INVALID EVIDENCE", f, str(e)[:200]); bad+=1
print("evidence files valid:", len(glob.glob('/verif/evidence/C*.json'))-bad)
m=json.load(open('/verif/MANIFEST.json')); jsonschema.validate(m, json.load(open('/root/.vp/MANIFEST.schema.json'))); print("manifest valid; checks:", len(m['checks']), "not_applicable:", len(m.get('not_applicable',[])))
PY
exit $rc_all
