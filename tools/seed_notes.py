#!/usr/bin/env python3
"""Adds to seeded/<id>/meta.json: the mechanism in one line, what it needs to manifest (taken from the sub-agent's
NOTES.md), whether the quick check of that time caught it when it was collected, and what was strengthened.
Also prints the markdown table used in DESIGN.md."""
import json, os, re, sys
HERE = os.path.dirname(os.path.dirname(os.path.abspath(__file__)))
DESC = {
"C01": "oneOf skips the scan for further matches when the first matching branch is the empty schema {}",
"C02": "resolve_fragment percent-decodes the fragment twice",
"C03": "'does not match any of the regexes' message built by concatenating patterns into the % format string",
"C04": "module-level validate() calls check_schema only when cls is None",
"C05": "Draft7 table maps `maximum` to the draft-3/4 function (consults exclusiveMaximum)",
"C06": "draft-3 type unions count the schema_path index among subschema members only",
"C07": "id scope pushed only when there is no $ref but popped whenever an id is present",
"C08": "uniq() brute-force path sorts by repr and compares neighbours only",
"C09": "multipleOf uses quotient.is_integer(): an infinite quotient no longer falls back to Fractions",
"C10": "shared legacy id_of helper falls back to $id in drafts 3/4",
"C11": "`properties` treats members whose value is null as absent (check_schema skips them)",
"C12": "format keyword returns early for array/object instances",
"C13": "date via strptime plus \\d shape regex (non-ASCII digits accepted)",
"C14": "resolve_fragment percent-decodes twice",
"C15": "resolve_remote also stores a fetched document under the URI its own id declares",
"C16": "extend() drops id_of when an explicit type_checker is passed",
"C17": "ErrorTree constructor walks all but the last path element through the checked __getitem__",
"C18": "module-level $ref cycle-guard set keyed by (url, id(instance))",
"C19": "pretty success header guarded by the accumulated exit code",
"C20": "module-level memo in validator_for keyed by the raw $schema spelling",
"C01b": "Draft6 table binds `minimum` to the draft-3/4 function", "C02b": "RefResolver.__init__ seeds the store without normalising user store keys",
"C03b": "bundled draft-4 metaschema loses exclusiveMinimum on multipleOf (multipleOf 0 accepted -> ZeroDivisionError)",
"C04b": "by_relevance appends error.validator as tie-break (None vs str for false-schema errors)",
"C05b": "additionalItems takes the tuple length from validator.schema (root) instead of the sibling items",
"C06b": "_Error.parent held through a weakref (context errors lose their parent once ancestors are dropped)",
"C07b": "Validator.validate() keeps the generator in a local: finalisation waits for the cyclic GC",
"C08b": "unbool() only descends into containers of the same kind", "C09b": "minimum_draft3_draft4 compares instance - minimum with 0",
"C10b": "`if ref:` instead of `if ref is not None:` (empty-string $ref does not hide siblings)",
"C11b": "RefResolver store order lets a registered metaschema with the same id override the referrer",
"C12b": "FormatChecker.check catches KeyError around both the registry look-up and the function call",
"C13b": "is_regex compiles with re.UNICODE (ValueError for a global (?a) flag)", "C14b": "array-index regex uses \\d (non-ASCII digits after an ASCII first digit)",
"C15b": "resolve_from_url narrows `except Exception` to (OSError, ValueError)", "C16b": "FormatChecker() shares the class registry until its first own registration",
"C17b": "ErrorTree.__contains__ true only when the child has errors of its own", "C18b": "class-level FormatChecker cache of (format, string) pairs that passed",
"C19b": "cli.run re-derives the class with validator_for(schema, default=--validator)", "C20b": "URIDict.normalize drops any fragment, not only an empty one",
"C01c": "draft 6/7 integer predicate accepts floats within epsilon of an integer", "C02c": "_id_of (drafts 6/7) falls back to `id` when `$id` is absent",
"C03c": "resolve_fragment catches (TypeError, KeyError): IndexError escapes", "C04c": "_Error.create_from forwards only fields that are not None",
"C05c": "iter_errors hoists the schema-path prefix decision out of the per-error loop (`if` inherits the previous keyword's prefix)",
"C06c": "json_path built by join then replace('.[', '[')", "C07c": "ref moves resolve()/push_scope() inside the try whose finally pops",
"C08c": "const() same-class fast path using == before equal()", "C09c": "multipleOf takes the float-quotient path whenever the instance is a float",
"C10c": "contains() returns early when a sibling minContains is 0", "C11c": "check_schema caches the last accepted schema and compares with ==",
"C12c": "FormatChecker.conforms memoises on (format, instance): True/1/1.0 collide", "C13c": "ipv4/ipv6 share a module-level cache of parsed addresses keyed by the string",
"C14c": "resolve_fragment pre-formats its error message with % (percent-escapes break formatting)", "C15c": "RefResolver.__init__ passes the user store as **kwargs to URIDict (keys not normalised)",
"C16c": "deprecated types= mutates the class-level _DEFAULT_TYPES in place", "C17c": "ErrorTree.__iter__ follows the instance's order and drops children the instance lacks",
"C18c": "module-level default-resolver cache keyed by (id(schema), id_of)", "C19c": "cli.run treats a loaded JSON null as 'could not load'",
"C20c": "validates() registers meta_schemas[id] = validators.setdefault(version, cls)",
"C01d": "if_ merges then/else into `if subschema:` (a `false` branch is skipped)", "C02d": "ref() does not push the target URL when the target declares an id",
"C03d": "by_relevance tie-break on error.validator (TypeError from jsonschema.validate)", "C04d": "ref() loses its try/finally (scope leaks when is_valid/validate abandon the iteration)",
"C05d": "ref() loses its try/finally (scope leaks inside one validation through not/contains/if)", "C06d": "descend() fast path for boolean subschemas nests the schema_path prepend under `if path is not None`",
"C07d": "URIDict.normalize lower-cases the whole URL", "C08d": "uniq() hash path freezes dicts to tuples of pairs (object == array of pairs)",
"C09d": "Draft6/7 tables bind `maximum` to the draft-3/4 function", "C10d": "additionalItems tests `if not aI:` before the object check ({} treated like false)",
"C11d": "minimum_draft3_draft4 reads exclusiveMinimum from validator.schema (the metaschema accepts divisor 0)", "C12d": "FormatChecker(formats=subset) re-registers without `raises`",
"C13d": "draft-3 time via datetime.time(int(h), ...) (OverflowError for huge fields)", "C14d": "RefResolver.resolve strips trailing '/' from the joined URL",
"C15d": "URIDict.normalize drops the query string", "C16d": "array-form dependencies implemented through the class's own `required` keyword",
"C17d": "total_errors kept as a running counter that over-counts duplicates at ancestors", "C18d": "validator_for writes unknown $schema URIs into meta_schemas (setdefault)",
"C19d": "default error format chosen by truthiness (--error-format '' replaced by the default)", "C20d": "CLI builds its own resolver without the selected class's id_of",
"C01e": "additionalItems loses its `items is boolean` guard (counts against a boolean items)", "C02e": "validate() takes only the first error and leaves the generator suspended (resolver scope stack stays dirty on a reused validator)",
"C03e": "draft-3 disallow asks the type checker directly (UndefinedTypeCheck escapes instead of UnknownType)", "C04e": "is_valid runs the `type` keyword first and returns early (differs when a sibling $ref hides type / on unknown type names)",
"C05e": "per-validator memo of is_type answers keyed by (instance class, type): 1.0 and 1.5 share an entry", "C06e": "draft-3 single-schema `extends` gains a spurious index 0 in schema_path",
"C07e": "RefResolver.in_scope/resolving skip pop_scope on GeneratorExit (user keywords that use them leak scope when iteration is abandoned)", "C08e": "equal() walks containers in step and looks up dict members with .get (missing key equals null)",
"C09e": "integer-divisor branch of multipleOf uses math.fmod (huge ints converted to float)", "C10e": "resolve_from_url first searches the referrer for an embedded $id, walking enum/const/default values too",
"C11e": "draft-6/7 integer check goes through float() (OverflowError for huge ints inside check_schema)", "C12e": "FormatChecker.checks inherits the previously declared `raises` when a format is re-registered",
"C13e": "email / idn-email look for '@' in the NFKC-normalised string (fullwidth @ accepted)", "C14e": "RefResolver.resolve_fragment memo keyed by (id(document), fragment): stale hits once a document is freed",
"C15e": "urllib fallback of resolve_remote returns from inside the with-block (fetched document never cached)", "C16e": "check_schema picks its meta-validator class through the $schema registry (a versioned child takes over its parent's check_schema)",
"C17e": "ErrorTree.__getitem__ indexes the recorded instance before consulting its known children", "C18e": "RefResolver.handlers becomes a class attribute updated in place (handlers leak between resolvers)",
"C19e": "--base-uri resolver built with from_schema + push_scope (local refs resolve against the base URI document)", "C20e": "CLI checks the schema with the $schema-declared class even when -V is given",
"C01f": "draft-3 dependencies returns (instead of continues) at the first key missing from the instance", "C02f": "iter_errors tests `if ref:` (an empty-string $ref no longer hides its siblings)",
"C03f": "ref() resolves and pushes inside the try whose finally pops (scope stack under-flows after RefResolutionError; IndexError on the next call)", "C04f": "validate() collects all errors before raising the first (a later non-validation exception wins)",
"C05f": "draft-3 dependencies returns after the first schema-form dependency (later entries dropped)", "C06f": "iter_errors fills validator/instance/schema only while schema_path is empty (false-schema errors get the enclosing level's details)",
"C07f": "RefResolver.resolve memoised on the reference text alone (ignores the resolution scope)", "C08f": "enum() caches normalised members in a module-level dict keyed by id(list)",
"C09f": "is_number rejects values beyond the float range (huge ints skip every numeric keyword)", "C10f": "`if` added to the Draft6 keyword table",
"C11f": "uniq() compares canonical json.dumps before the brute-force path (1 vs 1.0 inside objects not duplicates)", "C12f": "is_valid implemented as try validate() except ValidationError (an unlisted ValidationError from a format function is swallowed)",
"C13f": "FormatChecker.check %-formats the message a second time with the cause (instances containing % raise ValueError/TypeError)", "C14f": "resolve_fragment skips ~0/~1 unescaping unless the still percent-encoded fragment contains '~'",
"C15f": "resolve_remote dispatches with try handlers[scheme](uri) except KeyError (a KeyError inside a handler falls through to urlopen)", "C16f": "TypeChecker lookup memo shared with checkers derived by purely additive redefine",
"C17f": "ErrorTree records a node's instance only while unset (first error wins instead of last)", "C18f": "module-level lru_cache of pointer tokens, unescaped in place on the shared list",
"C19f": "_Outputter.validation_error skips a message identical to the previous one", "C20f": "validator_for falls back to `default` instead of the latest draft for an unknown $schema",
"C01g": "find_additional_properties joins all patternProperties regexes into one alternation (back-references renumbered)", "C02g": "URIDict.normalize case-folds the whole URI (documents whose URLs differ in path case collide)",
"C03g": "draft-6/7 integer check via float(instance).is_integer() (OverflowError for ints beyond the float range)", "C04g": "best_match takes min over the flattened context tree (may raise an intermediate anyOf/oneOf node)",
"C05g": "properties() looks members up with try instance[property] except KeyError (a defaultdict instance gets the member inserted)", "C06g": "schema-form dependencies descend with path=property (instance paths gain a spurious step)",
"C07g": "resolve_remote writes the store in a finally with result=None (a failed retrieval is cached as None)", "C08g": "equal() returns False early when one != two (OrderedDicts compare order-sensitively)",
"C09g": "maximum_draft3_draft4 reads exclusiveMaximum from validator.schema (the root) instead of its own schema object", "C10g": "best_match prefers the failing branch whose schema object has more members (annotations and unknown keywords count)",
"C11g": "draft-3 dependencies returns at the first absent property (metaschema's later dependency entries never checked)", "C12g": "check_schema builds its metaschema validator with format_checker=FormatChecker()",
"C13g": "is_ipv6 tests the zone text instead of the presence of '%' (a trailing bare % accepted)", "C14g": "ref() resolves and pushes inside the try whose finally pops (a clean pointer failure under-flows the stack for later pointers)",
"C15g": "RefResolver seeds the store with the bundled metaschemas only when cache_remote is on", "C16g": "Validator.resolver becomes a lazy property (registry snapshot taken at first use, not at construction)",
"C17g": "ErrorTree files an error under its keyword only if error.validator is not None (false-schema errors dropped)", "C18g": "Decimal branch of multipleOf yields inside decimal.localcontext() with narrowed precision (suspended iterator leaves the thread's context changed)",
"C19g": "CLI checks the schema only when no --validator was given", "C20g": "CLI loads files with parse_float=Decimal (draft-6/7 integer-valued floats rejected)",
"C01h": "deprecated types= builds on the legacy default type checker instead of the class's own (draft-6/7 floats, draft-3 'any')", "C02h": "iter_errors no longer pushes the ROOT schema's id as a scope (wrong base when the resolver's base URI is not the root id)",
"C03h": "anyOf pre-checks every branch with is_valid before collecting errors (2**depth steps for stacked failing anyOf)", "C04h": "check_schema validates against the metaschema of validator_for(schema, default=cls) instead of cls.META_SCHEMA",
"C05h": "iter_errors breaks (instead of continues) when a keyword callable returns None", "C06h": "iter_errors tests `if ref:` (siblings of an empty $ref become active; their schema paths lead nowhere)",
"C07h": "per-validator memo of is_type keyed by (instance class, type)", "C08h": "uniq() sort path skips members whose length differs from the first without advancing `previous`",
"C09h": "CLI loads JSON with parse_float=Decimal (Decimal % raises InvalidOperation for huge quotients)", "C10h": "draft-3 properties treats a `default` annotation as satisfying `required`",
"C11h": "per-validator memo of is_type keyed by (instance class, type) inside one check_schema call", "C12h": "ref() turns a ValueError raised below it (e.g. by a custom format function) into RefResolutionError",
"C13h": "is_ipv4 via socket.inet_pton (ValueError / UnicodeEncodeError for NUL and surrogates not listed)", "C14h": "resolve_from_url uses store.get(url) and treats a stored null document as missing",
"C15h": "RefResolver.resolve strips trailing '/' from the joined URL (store documents whose URL ends in '/' are fetched)", "C16h": "RefResolver.__init__ uses store.setdefault(base_uri, referrer) (a re-registered metaschema id wins over the referrer)",
"C17h": "ErrorTree files errors in sorted (path, validator) order (None vs str TypeError)", "C18h": "a store that already is a URIDict is adopted, not copied (two resolvers alias one store)",
"C19h": "_PrettyFormatter runs the header (with the file path) through str.format twice", "C20h": "by_relevance appends the keyword name as tie-break (None vs str TypeError in validate())",
"C01i": "single-schema items (drafts 6/7) skips elements found in a set of scalars it already accepted (1 / 1.0 / true collide)", "C02i": "push_scope joins a new scope onto the resolver's FIRST base instead of the innermost one",
"C03i": "`if` registered in the Draft6 keyword table (values the draft-6 metaschema does not constrain reach if_)", "C04i": "validator_for reads $schema with schema.get (AttributeError for list / string schemas without a class)",
"C05i": "array-form dependencies drops a missing name that the sibling `required` also lists", "C06i": "_Error.__str__ pops the keyword off the LIVE schema_path deque (rendering an error shortens its paths)",
"C07i": "draft-3 properties looks members up with try instance[property] (defaultdict instances get members inserted)", "C08i": "uniqueItems partitions the array by JSON type before uniq() (1 and 1.0 land in different groups in drafts 3/4)",
"C09i": "multipleOf caches its float/exact strategy per divisor in a module-level dict (2 and 2.0 share an entry)", "C10i": "RefResolver files stored documents under their own top-level $id as well (also for drafts 3/4)",
"C11i": "check_schema follows the CANDIDATE's $schema to another registered draft's class and metaschema", "C12i": "draft-3 format re-spells ip-address/host-name to ipv4/hostname when the checker lacks the draft-3 name",
"C13i": "older-draft format names registered class-wide without `raises` (ip-address lets AddressValueError escape)", "C14i": "resolve_fragment pre-checks an array index against the length by comparing decimal STRINGS",
"C15i": "the store write moved from resolve_remote into resolve_from_url (a direct resolve_remote is not remembered)", "C16i": "validates() registers an id-less metaschema under its $schema",
"C17i": "ErrorTree walks error.absolute_path instead of error.path (trees built from error.context misfile)", "C18i": "RefResolver construction appends unknown schemes to urllib.parse.uses_relative / uses_netloc",
"C19i": "load failures are ADDED to the exit status (256 unloadable instances give status 0)", "C20i": "validator_for subscripts schema['$schema'] in a try (defaultdict schemas get a $schema invented and inserted)",
"C01j": "properties() (drafts 4/6/7) uses instance.get(property) and skips members whose value is null", "C02j": "resolve_remote also stores a fetched document under the id it declares, overwriting the entry of the document that really has that URL",
"C03j": "integer-divisor fallback of multipleOf builds Fraction(instance, dB) (TypeError for a float instance and a huge int divisor)", "C04j": "draft-3 single-schema extends calls validator.validate() (raises instead of yielding)",
"C05j": "RefResolver.resolve remembers (url, subschema) per reference text, ignoring the base in effect (siblings under different bases)", "C06j": "shared _prepend helper drops schema-path steps equal to 'if' or '$ref' also when they are member NAMES",
"C07j": "iter_errors registers every id-carrying subschema it walks in the resolver's store", "C08j": "contains() fast path `v in instance` when its subschema is exactly {const: v}",
"C09j": "exclusiveMinimum returns early if the bound `in (True, False)` (0 and 1 are such bounds)", "C10j": "bundled draft-6 metaschema gains a `$comment` property (a draft-7 keyword)",
"C11j": "META_SCHEMA published as a mappingproxy (the metaschema object itself is no longer an 'object')", "C12j": "draft-3 disallow builds a fresh sub-validator without the format checker",
"C13j": "FormatChecker(formats=...) iterates its argument twice (one-shot iterables leave it empty)", "C14j": "resolve_fragment applies the `if fragment else []` guard after removing the leading '/' ('#/' returns the whole document)",
"C15j": "default urljoin cache is one module-level lru shared by all resolvers (stale after the program registers a scheme with urllib)", "C16j": "draft4_format_checker and draft6_format_checker are the same FormatChecker instance",
"C17j": "ErrorTree.__len__ counts with a work list keyed by child index (a reused index one level down overwrites a pending subtree)", "C18j": "thread-local nesting-depth budget bumped in iter_errors and held across yields",
"C19j": "argument parser built with fromfile_prefix_chars='@'", "C20j": "validate() passes an explicit cls only as the default of validator_for",
"C01k": "multipleOf unified on the float-quotient test (integer divisor and instance with a quotient beyond 2**53)", "C02k": "RefResolver remembers failed retrievals and re-raises them for every later reference into that document",
"C03k": "remembered retrieval failures are re-raised RAW (KeyError / URLError) on the second use", "C04k": "properties() (drafts 4/6/7) looks members up with try instance[property] (a defaultdict instance changes between entry points)",
"C05k": "patternProperties collects matches in a dict keyed by member name (a member matching two patterns keeps only the last)", "C06k": "absolute_path returns early when the parent's relative path is empty (grandparents' steps dropped)",
"C07k": "ref() restores the scope stack by truncating to its entry depth instead of pop_scope()", "C08k": "unbool() carries an identity-based visited set (a container object occurring twice is left un-normalised)",
"C09k": "draft-6/7 maximum skipped when the sibling exclusiveMaximum is 'at least as strict' (comparison copied unflipped from minimum)", "C10k": "iter_errors runs keywords in TABLE order once an object has more members than the draft has keywords",
"C11k": "module-level set of (instance, referent) pairs in ref() as a cycle guard, emptied only when the generator finishes", "C12k": "per-instance keyword table leaves `format` out when the checker knows no format at construction",
"C13k": "is_regex only runs the regex parser (variable-width look-behinds accepted)", "C14k": "RefResolver.__init__ files the referrer with store.setdefault (a pre-seeded entry of the same name wins)",
"C15k": "RefResolver.from_schema's explicit signature forgets to forward cache_remote", "C16k": "create() keeps the caller's keyword table and metaschema mappings instead of copying them",
"C17k": "childless ErrorTree nodes share one class-level children mapping (written through __setitem__)", "C18k": "resolve_remote writes the retrieval URL into the fetched document as its $id",
"C19k": "--error-format gets a type= callable that trial-formats against a blank error", "C20k": "validate() builds the validator before it checks the schema",
"C01l": "iter_errors skips push_scope for an id that starts with '#' but still pops (second visit under-flows the scope stack)", "C02l": "RefResolver.resolve strips trailing '/' from the joined URL (pointers whose last token is empty designate the parent)",
"C03l": "find_additional_properties compiles all patternProperties into one alternation (inline global flags / duplicate group names raise re.error)", "C04l": "iter_errors pushes the id scope inside the try whose finally pops (a push that raises empties the stack)",
"C05l": "iter_errors drops an error whose (keyword, message, path) equals one already reported in the same call", "C06l": "RefResolver.__init__ files the referrer with store.setdefault (a same-named entry wins; '#' lands in the other document)",
"C07l": "RefResolver keeps at most 256 retrieved documents and evicts the root schema first", "C08l": "iter_errors converts a top-level Decimal instance to float",
"C09l": "float-divisor multipleOf accepts quotients within one ulp of an integer", "C10l": "validate() passes an explicit cls only as the default of validator_for",
"C11l": "is_number tests numbers.Real (Decimal-valued numeric keywords fail check_schema)", "C12l": "is_ipv4 guard widened to (str, int): integers reach the address parser",
"C13l": "is_date parses the regex groups, anchored with ^...$ (a trailing line feed is accepted)", "C14l": "resolve_fragment narrows its except to LookupError (non-index tokens on arrays / tokens on strings raise TypeError)",
"C15l": "resolve_remote calls self._remote_cache.cache_clear() when overwriting a stored entry (caller-supplied plain functions have no cache_clear)", "C16l": "siblings of $ref are skipped only when the class's keyword table has a truthy $ref entry",
"C17l": "_Error.absolute_path reverses the parent's deque in place (reading a child's absolute_path moves the parent's path)", "C18l": "types_msg lifts the interpreter's int->str digit limit (sys.set_int_max_str_digits(0)) and never restores it",
"C19l": "blank stdin is taken for 'no instance given' (exit 0, no diagnostic)", "C20l": "CLI exit status is the verdict of the LAST loadable instance (= instead of |=)",
"C01m": "patternProperties compiles its patterns once per distinct tuple of regex strings, memoising the subschemas with them (a later schema with the same patterns gets the earlier subschemas)", "C02m": "cli.run without --base-uri builds RefResolver.from_schema(schema) without the class's id_of (draft 3/4 `id` ignored)",
"C03m": "the `date` checker lost raises=ValueError (an impossible date lets ValueError escape)", "C04m": "RefResolver.resolve memoised per reference string, ignoring the resolution scope (reused validator differs from a fresh one)",
"C05m": "extras_msg lists sorted(extras) (two mutually unorderable extra items -> TypeError instead of errors)", "C06m": "best_match grafts the parent's instance path onto the context error it hands back",
"C07m": "per-resolver cache of JSON-pointer tokens hands out a one-shot iterator (second resolution of a pointer walks nothing)", "C08m": "equal() falls back to Python == when unbool() hits the recursion limit (true == 1 for deep values)",
"C09m": "numeric keywords' messages abbreviate integers beyond 256 bits in scientific notation", "C10m": "is_valid follows a bare {$ref} itself without pushing the referent's scope (a sibling switches back to the correct route)",
"C11m": "types_msg formats the type-error message twice (instance text containing % breaks or changes it)", "C12m": "FormatChecker.check builds its failure message before running the check (unrenderable instances raise although the check passes)",
"C13m": "email requires exactly one @", "C14m": "URIDict.normalize drops the fragment (a member-as-referrer overwrites the enclosing document's store entry)",
"C15m": "resolve_fragment memoises by (id(document), fragment) (a re-fetched or short-lived document gets another's value)", "C16m": "legacy type-check memo keyed by the reprs of the given classes and the instance class (distinct classes sharing a name are confused)",
"C17m": "ErrorTree.__getitem__ accepts decimal strings for array indices (tree['0'] creates/returns the node of 0)", "C18m": "_generate_legacy_type_checks accumulates in a mutable default (every types= validator also gets what earlier ones asked for)",
"C01n": "extras_msg sorts the extras (TypeError for unorderable surplus items; same slip as C05m, seeded independently)", "C02n": "$ref keyword skips a reference whose (text, instance) is already in progress (same text in another document is taken for a cycle)",
"C03n": "equal() compares objects member by member without a `key in two` guard (KeyError escapes from enum/const)", "C04n": "$ref keyword skips a reference whose (url, instance) is in progress on the validator (a suspended iteration blinds other calls)",
"C05n": "find_additional_properties also treats the keys of a sibling `dependencies` as declared", "C06n": "resolve_fragment decodes ~0 before ~1 (~01 becomes /)",
"C07n": "resolve_remote appends the handler's scheme to urllib.parse.uses_relative/uses_netloc", "C08n": "uniq() refactored to return the duplicate or None (a duplicated null goes unnoticed)",
"C09n": "iter_errors skips keywords whose value equals the metaschema's declared default (draft-3 divisibleBy: 1)", "C10n": "Validator.__init__ snapshots the schema recursively (a deeply nested foreign value raises RecursionError)",
"C11n": "equal(): element-wise comparison whose string guard says `and` (a string equals the array of its characters)", "C12n": "Validator.__init__ swaps the positions of resolver and format_checker",
"C13n": "idn-hostname rejects a numeric last label by indexing it (IndexError for a trailing dot)", "C14n": "Validator.__init__ builds its default resolver without id_of (draft 3/4 root `id` ignored)",
"C15n": "resolve answers '#'-references straight from store[base] (KeyError when the fetched document was not kept)", "C16n": "validates() removes the metaschema ids of the class that held the version name before",
"C17n": "ErrorTree._instance default is a fresh Unset sentinel, __getitem__ still compares with the module's", "C18n": "process-wide memo of URLs urllib could not fetch, consulted before handler dispatch",
"C19n": "_Outputter.load uses raw_decode (trailing garbage after a JSON value is accepted)", "C20n": "validator_for requires a dict, not any Mapping, to look for $schema",
"C01o": "additionalProperties dispatches on the truthiness of its value ({} is taken for false)", "C02o": "resolve_remote returns the document only under `if self.cache_remote:` (None otherwise)",
"C03o": "extras_msg sorts the extras (third independent seeding of this slip)", "C04o": "module validate() builds the validator before it checks the schema (constructor errors instead of SchemaError)",
"C05o": "required() skips a missing member whose sibling `properties` entry declares a default", "C06o": "draft-3 schema-form dependencies descend without schema_path=property",
"C07o": "draft-3 dependencies rewrites the string shorthand to a list IN the schema", "C08o": "equal(): element-wise Sequence comparison guarded with `and` (string vs array of characters; second seeding)",
"C09o": "multipleOf's overflow fallback takes Fraction(str(divisor)) instead of Fraction(divisor)", "C10o": "resolve_fragment tries each raw (still escaped) token as a literal member name first",
"C11o": "drafts 6/7 `items` remembers scalar items that passed in a set and skips equal later ones (true/1)", "C12o": "FormatChecker.check treats a None result as conforming",
"C13o": "conforms() calls the function directly and returns `result and True` (None for the date checker's failed match)", "C14o": "Validator.validate keeps the error iterator in a local (scopes stay pushed while the exception lives)",
"C15o": "resolving() resolves and pushes inside the try whose finally pops (a failed resolution pops a scope it never pushed)", "C16o": "validates() appends the metaschema id's scheme to urllib.parse.uses_relative/uses_netloc",
"C17o": "draft-3 schema-form dependencies descend with path=property as well", "C18o": "URIDict.items() hands out a cached snapshot that overwriting an existing key does not drop",
"C19o": "cli.main returns run()'s status instead of sys.exit()ing with it (python -m jsonschema always exits 0)", "C20o": "create() remembers the metaschema id; validates() registers under the remembered one",
"C19m": "cli.run without --base-uri builds the resolver without the class's id_of (same slip as C02m, seeded independently)", "C20m": "create() registers only for a truthy version (version='' is silently not registered)",
}
MISSED = set("C03 C07 C12 C15 C16 C20 C02b C06b C07b C10b C11b C14b C19b C01c C02c C06c C10c C12c C15c C16c C18c C19c C20c "
             "C02d C04d C05d C07d C09d C13d C15d C16d C18d C19d C20d "
             "C01e C02e C04e C05e C07e C10e C11e C12e C14e C15e C16e C19e C20e "
             "C02f C03f C04f C07f C11f C12f C17f C18f "
             "C01g C02g C05g C08g C09g C10g C12g C14g C16g C18g "
             "C01h C02h C03h C04h C05h C06h C09h C12h C14h C18h C19h C20h "
             "C04i C06i C10i C15i C16i C17i C18i C19i C20i "
             "C02j C04j C05j C06j C07j C08j C10j C13j C15j C19j "
             "C02k C04k C08k C10k C11k C12k C14k C17k C18k C19k C20k "
             "C01l C04l C06l C07l C08l C10l C11l C16l C17l C18l C19l C20l "
             "C02m C03m C04m C05m C08m C10m C12m C14m C16m C18m C19m C20m "
             "C01n C02n C04n C10n C11n C12n C15n C16n C18n C19n C20n "
             "C02o C05o C10o C14o C16o C18o C20o".split())
rows = []
for name in sorted(os.listdir(os.path.join(HERE, "seeded"))):
    mp = os.path.join(HERE, "seeded", name, "meta.json")
    if not os.path.exists(mp):
        continue
    m = json.load(open(mp))
    m["breaks"] = DESC.get(name, m.get("breaks", ""))
    m["caught_by_the_check_as_it_was_when_the_change_arrived"] = name not in MISSED
    notes = os.path.join(HERE, "seeded", name, "NOTES.md")
    if os.path.exists(notes) and "needs_to_manifest" not in m:
        txt = open(notes).read()
        k = re.search(r"(?is)(what (?:is|it)? ?need[^\n]*\n+)(.{40,900}?)(\n#|\n\n\n|\Z)", txt)
        m["needs_to_manifest"] = (k.group(2).strip() if k else "see NOTES.md")[:900]
    json.dump(m, open(mp, "w"), indent=1)
    rows.append((name, m))
if "--table" in sys.argv:
    print("| seeded change | property | what it breaks | tests pass | demo fails/passes | caught on arrival | caught now |")
    print("|---|---|---|---|---|---|---|")
    for name, m in rows:
        print("| `seeded/%s` | %s | %s | yes | %s/%s | %s | %s |" % (name, m["property"], m["breaks"], m["demo_exit_with_change"], m["demo_exit_without_change"],
              "yes" if name not in MISSED else "**no**", "yes" if m.get("quick_check_exit_against_change_when_collected") == 1 else "NO"))
