#!/bin/bash
# usage: tools/collect_seed.sh <Cxx> [seed-name]   (worktree /tmp/seedwork/wt_<Cxx>)
# Confirms the sub-agent's change myself (tests pass with it, demo fails with it and passes without),
# stores it under /verif/seeded/<name>/ and runs the property's quick check against the changed tree.
id="$1"; name="${2:-$1}"; wt=/tmp/seedwork/wt_$id; out=/verif/seeded/$name
set -u
mkdir -p "$out"
cd "$wt" || exit 2
git diff -- jsonschema > "$out/patch.diff"
if [ ! -s "$out/patch.diff" ]; then echo "NO CHANGE in $wt"; exit 2; fi
cp demo_$id.py "$out/demo.py" 2>/dev/null; cp NOTES_$id.md "$out/NOTES.md" 2>/dev/null
tests=$(/venv/bin/python -m pytest -q -p no:cacheprovider -x 2>&1 | tail -1)
PYTHONPATH=$wt /venv/bin/python demo_$id.py >/dev/null 2>&1; with=$?
# (git stash is shared between worktrees: revert and re-apply the patch instead)
git apply -R "$out/patch.diff"
PYTHONPATH=$wt /venv/bin/python demo_$id.py >/dev/null 2>&1; without=$?
git apply "$out/patch.diff"
echo "tests: $tests | demo exit with change: $with, without: $without"
cd /verif
chk=$(VERIF_REPO=$wt timeout 1800 /venv/bin/python -m vf.check $id --no-evidence 2>&1)
rc=$?
echo "$chk" | grep -E "verdict|^VIOLATION|kind=|INCONCLUSIVE" | head -4 | cut -c1-300
python3 - "$id" "$name" "$tests" "$with" "$without" "$rc" <<'PY'
import json, sys
id_, name, tests, w, wo, rc = sys.argv[1:7]
json.dump({"property": id_, "source": "fresh sub-agent given only the property text and a scratch worktree",
           "tests_with_change": tests, "demo_exit_with_change": int(w), "demo_exit_without_change": int(wo),
           "quick_check_exit_against_change_when_collected": int(rc),
           "what_ran": ["pytest -q -p no:cacheprovider -x (in the worktree)", "demo.py with and without the change (git stash)",
                        "VERIF_REPO=<worktree> python -m vf.check %s --no-evidence" % id_]},
          open("/verif/seeded/%s/meta.json" % name, "w"), indent=1)
PY
echo "check exit=$rc"
