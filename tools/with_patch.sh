#!/bin/bash
# usage: tools/with_patch.sh <patch.diff> <command...>
# Copies /repo's working tree to a scratch dir outside /repo and /verif, applies the
# patch there, runs the command with VERIF_REPO pointing at the copy, removes the copy.
set -u
patch="$(realpath "$1")"; shift
scratch="$(mktemp -d /var/tmp/vfmut.XXXXXX)"
trap 'rm -rf "$scratch"' EXIT
rsync -a --exclude .git --exclude '*.pyc' --exclude __pycache__ /repo/ "$scratch/"
if ! (cd "$scratch" && patch -p1 -s < "$patch"); then echo "PATCH FAILED"; exit 3; fi
VERIF_REPO="$scratch" "$@"
