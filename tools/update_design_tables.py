#!/usr/bin/env python3
"""Regenerates the two generated tables of DESIGN.md (between the BEGIN/END markers)."""
import os, re, subprocess, sys
HERE = os.path.dirname(os.path.dirname(os.path.abspath(__file__)))
p = os.path.join(HERE, "DESIGN.md")
s = open(p).read()
audit = subprocess.run([sys.executable, os.path.join(HERE, "tools", "audit_table.py")], capture_output=True, text=True).stdout
seeds = subprocess.run([sys.executable, os.path.join(HERE, "tools", "seed_notes.py"), "--table"], capture_output=True, text=True).stdout
s = re.sub(r"(?s)<!-- AUDIT-TABLE-BEGIN -->.*?<!-- AUDIT-TABLE-END -->", lambda m: "<!-- AUDIT-TABLE-BEGIN -->\n" + audit + "<!-- AUDIT-TABLE-END -->", s)
s = re.sub(r"(?s)<!-- SEED-TABLE-BEGIN -->.*?<!-- SEED-TABLE-END -->", lambda m: "<!-- SEED-TABLE-BEGIN -->\n" + seeds + "<!-- SEED-TABLE-END -->", s)
floors = subprocess.run(["/venv/bin/python", os.path.join(HERE, "tools", "floors_table.py")], capture_output=True, text=True,
                        env=dict(os.environ, PYTHONPATH=HERE)).stdout
if floors.strip():
    s = re.sub(r"(?s)<!-- FLOORS-BEGIN -->.*?<!-- FLOORS-END -->", lambda m: "<!-- FLOORS-BEGIN -->\n" + floors + "<!-- FLOORS-END -->", s)
open(p, "w").write(s)
print("DESIGN.md tables updated")
