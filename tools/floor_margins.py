#!/usr/bin/env python3
"""Dev aid: runs every claimed quick check for the given seeds and prints, per check, the non-vacuity floors with the
smallest observed/required ratio (a floor that sits close to what a run observes will sooner or later turn a seed into
INCONCLUSIVE).  usage: tools/floor_margins.py 0 1 2"""
import json, os, subprocess, sys
HERE = os.path.dirname(os.path.dirname(os.path.abspath(__file__)))
ids = [l.strip() for l in open(os.path.join(HERE, "tools", "claimed.txt")) if l.strip()]
worst = {}
for seed in sys.argv[1:] or ["0"]:
    for i in ids:
        subprocess.run(["/venv/bin/python", "-m", "vf.check", i, "--seed", seed], cwd=HERE, capture_output=True, text=True)
        ev = json.load(open(os.path.join(HERE, "evidence", i + ".json")))["coverage"]
        for k, need in ev.get("floors", {}).items():
            have = ev["counters"].get(k, ev.get(k, 0) if isinstance(ev.get(k, 0), (int, float)) else 0)
            r = have / need if need else 99
            if (i, k) not in worst or r < worst[(i, k)][0]:
                worst[(i, k)] = (r, have, need, seed)
for (i, k), (r, have, need, seed) in sorted(worst.items(), key=lambda kv: kv[1][0])[:40]:
    print("%s %-45s observed %8d  floor %8d  ratio %.2f (seed %s)" % (i, k, have, need, r, seed))
