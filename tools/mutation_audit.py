#!/usr/bin/env python3
"""Mutation audit: for every patch in mutants/<Cxx>/ and seeded/<id>/patch.diff
  1. copy /repo's working tree to a scratch dir outside /repo and /verif, apply the patch;
  2. run the pinned test suite there (the mutant must be invisible to it);
  3. run the quick check of the targeted property with VERIF_REPO pointing at the copy (must exit 1);
  4. remove the copy.
Writes evidence/mutation_audit.json and prints a table."""
import glob
import json
import os
import shutil
import subprocess
import sys
import tempfile
import time

HERE = os.path.dirname(os.path.dirname(os.path.abspath(__file__)))
PY = "/venv/bin/python"


def run_one(patch, prop, extra_props=()):
    scratch = tempfile.mkdtemp(prefix="vfmut.", dir="/var/tmp")
    try:
        subprocess.run(["rsync", "-a", "--exclude", ".git", "--exclude", "__pycache__", "/repo/", scratch + "/"], check=True)
        p = subprocess.run(["patch", "-p1", "-s", "-i", patch], cwd=scratch, capture_output=True, text=True)
        if p.returncode != 0:
            return {"patch": os.path.relpath(patch, HERE), "property": prop, "applies": False}
        t = subprocess.run([PY, "-m", "pytest", "-q", "-p", "no:cacheprovider", "-x", "--timeout=900"], cwd=scratch,
                           capture_output=True, text=True)
        tests_pass = t.returncode == 0
        res = {"patch": os.path.relpath(patch, HERE), "property": prop, "applies": True, "tests_pass": tests_pass,
               "tests_tail": t.stdout.strip().splitlines()[-1] if t.stdout.strip() else ""}
        env = dict(os.environ, VERIF_REPO=scratch)
        for pr in (prop,) + tuple(extra_props):
            t0 = time.time()
            c = subprocess.run([PY, "-m", "vf.check", pr, "--tier", "quick", "--no-evidence"], cwd=HERE, env=env,
                               capture_output=True, text=True, timeout=3600)
            kinds = [l.strip() for l in c.stdout.splitlines() if l.strip().startswith("kind=")]
            res.setdefault("checks", {})[pr] = {"exit": c.returncode, "wall_s": round(time.time() - t0, 1),
                                                "first": kinds[0][:200] if kinds else ""}
        return res
    finally:
        shutil.rmtree(scratch, ignore_errors=True)


def main():
    only = sys.argv[1:]
    items = []
    for patch in sorted(glob.glob(os.path.join(HERE, "mutants", "C*", "*.patch"))):
        items.append((patch, os.path.basename(os.path.dirname(patch))))
    for meta in sorted(glob.glob(os.path.join(HERE, "seeded", "*", "meta.json"))):
        m = json.load(open(meta))
        items.append((os.path.join(os.path.dirname(meta), "patch.diff"), m["property"]))
    if only:
        items = [it for it in items if any(o in it[0] for o in only)]
    from concurrent.futures import ThreadPoolExecutor
    out = []
    with ThreadPoolExecutor(max_workers=3) as ex:
        for r in ex.map(lambda it: run_one(*it), items):
            out.append(r)
            ck = r.get("checks", {}).get(r.get("property"), {})
            print("%-62s tests_pass=%-5s %s exit=%s %ss %s" % (r["patch"][-62:], r.get("tests_pass"), r.get("property"),
                                                             ck.get("exit"), ck.get("wall_s"), ck.get("first", "")[:90]), flush=True)
    if not only:
        os.makedirs(os.path.join(HERE, "evidence"), exist_ok=True)
        with open(os.path.join(HERE, "evidence", "mutation_audit.json"), "w") as f:
            json.dump(out, f, indent=1)
    caught = sum(1 for r in out if r.get("checks", {}).get(r["property"], {}).get("exit") == 1)
    print("caught %d of %d; tests still pass for %d" % (caught, len(out), sum(1 for r in out if r.get("tests_pass"))))


if __name__ == "__main__":
    main()
